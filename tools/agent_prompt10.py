import sys
pid=sys.argv[1]; ca=sys.argv[2]; cb=sys.argv[3]
CATS={
 'M35': "behaviour that changes with the number of times something has happened: the Nth rotation, deployment, approval, transfer or role change (N somewhere between 3 and 60), a counter or list that fills up, a value that only accumulates",
 'M36': "a chain of three or more steps across two contracts (for instance token service, gateway, gas service, token) in which each step looks fine and only the combination breaks the property",
 'M37': "two operations in the same ledger (same sequence number and timestamp), or an operation repeated immediately, where some value is only refreshed when the ledger moves on",
 'M38': "the state a contract is in between `upgrade` and `migrate`, or right after construction before its first ordinary use: something that is allowed, skipped or defaulted only in that state",
 'M39': "an address argument that is a contract with its own authorisation logic, the contract itself, another of the system's contracts, or an address that cannot exist: a branch that treats one kind of address differently",
 'M40': "Option arguments and absent values: None versus Some, an empty Bytes / String / Vec standing for 'not given', a default filled in at one place and not at another",
}
prop=open('/tmp/prop-%s.txt'%pid).read()
d='/tmp/wt10-%s'%pid
print(f"""You are working in a scratch git worktree of the repository axelarnetwork/axelar-cgp-soroban at {d} (Soroban / Stellar smart contracts in Rust: Axelar gateway, gas service, operators, interchain token, interchain token service, upgrader, example). Work ONLY inside {d}. There is no network: always pass --offline to cargo (and you may set CARGO_NET_OFFLINE=true). The full test suite is `cd {d} && cargo test --workspace --no-fail-fast --offline` (first build takes a few minutes; use a generous timeout). Do not run `cargo test -p <crate>` alone: because of feature unification single-crate builds may fail; always build/test with --workspace (you can add `--test <name>` or a test-name filter after `--`).

This property must hold for correct code:

{prop}

Your task: design TWO DIFFERENT realistic code changes, A and B, to the non-test source (files under {d}/contracts/*/src or {d}/packages/*/src). Each one, applied on its own to the unchanged code, must BREAK this property while (a) the workspace still compiles and (b) the entire existing test suite still passes, unedited.
- Change A must be about: {CATS[ca]}.
- Change B must be about: {CATS[cb]}.
If a category truly cannot produce a break of this property, pick the closest mechanism you can and say so in NOTES.md. Each change should look like something a maintainer could plausibly introduce (an optimisation, a refactor, a convenience feature with a plausible comment) and must need something specific to manifest: a particular multi-step sequence of operations, an unusual or boundary input, a particular ledger time/sequence, a particular configuration value, or the interplay of two call sites. Prefer subtle over blunt: the break should survive a reviewer skimming the diff, ordinary happy-path use must not expose it, and do not merely delete an obviously tested check. Do not modify, add to or delete any existing test or testdata.

Deliverables, written under {d}/seeded/A/ and {d}/seeded/B/ (create the directories); for each of A and B:
1. patch.diff: `git diff` of the source change alone against the unchanged HEAD (not including the demo test), so that `git apply patch.diff` on a clean worktree reproduces it (if the change adds new files, run `git add -N <file>` first so that `git diff` includes them, and `git reset -q` afterwards).
2. demo.rs: a self-contained Rust integration test that FAILS with the change applied and PASSES on the unchanged code; it will be installed as <crate dir>/tests/seeded_demo.rs. Use only crates that are already dev-dependencies of that crate.
3. CRATE: a one-line text file with the crate directory the demo belongs to, relative to the worktree root (e.g. contracts/axelar-gateway).
4. NOTES.md: how the property is broken, what exactly is needed for the break to manifest, and the exact commands you ran with their outcomes, covering all three facts: (i) the full existing suite passes with the change, (ii) the demo fails with the change, (iii) the demo passes without the change.
When you are done leave the worktree CLEAN: no source change applied and no demo test installed (`git checkout -- .`, remove any seeded_demo.rs and generated test_snapshots); only the seeded/ directory remains. Do not commit and do NOT use `git stash` (the stash is shared between worktrees; use `git diff > file`, `git checkout -- .`, `git apply` instead). Do not read anything outside {d} other than the cargo registry/toolchain (in particular do not look at /verif or /repo). Finish with a short summary of both changes and the verification results.""")
