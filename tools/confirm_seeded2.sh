#!/bin/bash
# Confirm a sub-agent's seeded change given as <worktree>/seeded/<sub>/{patch.diff,demo.rs,CRATE}
# on a clean worktree: (i) suite passes with the change, (ii) demo fails with it, (iii) demo passes without.
WT=$1; SUB=$2
cd "$WT" || exit 2
export CARGO_NET_OFFLINE=true
S="$WT/seeded/$SUB"
CR=$(head -1 "$S/CRATE" | tr -d '[:space:]')
git checkout -- . ; find contracts packages -name seeded_demo.rs -delete
git apply "$S/patch.diff" || { echo "{\"wt\":\"$WT\",\"sub\":\"$SUB\",\"error\":\"patch does not apply\"}"; exit 1; }
T=/tmp/$(basename $WT)-$SUB
cargo test --workspace --no-fail-fast --offline > $T-suite.log 2>&1; SRC=$?
SP=$(grep -E "^test result" $T-suite.log | awk '{p+=$4; f+=$6} END {print p","f}')
mkdir -p "$CR/tests"; cp "$S/demo.rs" "$CR/tests/seeded_demo.rs"
cargo test --workspace --offline --test seeded_demo > $T-with.log 2>&1; W=$?
git apply -R "$S/patch.diff"
cargo test --workspace --offline --test seeded_demo > $T-without.log 2>&1; O=$?
rm -f "$CR/tests/seeded_demo.rs"; git checkout -- .
echo "{\"wt\":\"$WT\",\"sub\":\"$SUB\",\"crate\":\"$CR\",\"suite_rc\":$SRC,\"suite_passed_failed\":\"$SP\",\"demo_with_change_rc\":$W,\"demo_without_change_rc\":$O}"
