#!/bin/bash
# Reach audit (not part of any verdict): build the harness with -Cinstrument-coverage into a
# scratch target dir, run one quick shard of every property, and report line coverage of the
# repository's contract sources. Usage: tools/reach_audit.sh [outdir]   (removes its build dir)
set -e
OUT=${1:-/tmp/reach}
LLVM=$(ls -d ~/.rustup/toolchains/nightly-x86_64-unknown-linux-gnu/lib/rustlib/x86_64-unknown-linux-gnu/bin)
rm -rf "$OUT"; mkdir -p "$OUT/prof"
cd /verif/harness
LLVM_PROFILE_FILE="$OUT/build-%p.profraw" CARGO_NET_OFFLINE=true CARGO_TARGET_DIR="$OUT/target" RUSTFLAGS="-Cinstrument-coverage" cargo build --release --offline 2>&1 | tail -1
for p in C01 C02 C03 C04 C05 C06 C07 C08 C09 C10 C11 C12 C13 C14 C15 C16 C17 C18; do
  for sh in 0 1 2 3 4 5 6 7 8 9 10 11 12 13 14 15; do
    LLVM_PROFILE_FILE="$OUT/prof/$p-$sh.profraw" "$OUT/target/release/vh" run $p --tier quick --seed 1 --shard $sh --of 16 --out "$OUT/$p-$sh.json" >/dev/null 2>&1 &
  done
  wait
done
"$LLVM/llvm-profdata" merge -sparse "$OUT"/prof/*.profraw -o "$OUT/all.profdata"
"$LLVM/llvm-cov" report "$OUT/target/release/vh" -instr-profile="$OUT/all.profdata" $(find /repo/contracts /repo/packages -path '*/src/*.rs' | grep -v testdata | grep -v testutils) 2>/dev/null > "$OUT/report.txt" || true
"$LLVM/llvm-cov" show "$OUT/target/release/vh" -instr-profile="$OUT/all.profdata" $(find /repo/contracts -path '*/src/*.rs' | grep -v testdata | grep -v testutils) --show-line-counts-or-regions 2>/dev/null > "$OUT/show.txt" || true
rm -rf "$OUT/target"
cat "$OUT/report.txt"
