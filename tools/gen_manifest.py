#!/usr/bin/env python3
"""Regenerate /verif/MANIFEST.json from the table below (keeps the file consistent and valid)."""
import json, os

ROOT = os.path.dirname(os.path.dirname(os.path.abspath(__file__)))

NOTE = ("Where stated, the history recorded under the pinned version (legacy/state.json) is continued by the current code after upgrade and migrate. Sampled executions of the tree's contracts in the soroban-sdk 22 native test host (not the Wasm VM); the host's "
        "transaction atomicity, auth-tree matching and TTL semantics, Ed25519 and Keccak-256 are trusted; independent oracles "
        "are self-tested against fixed vectors before every run. Held on the executions listed in the evidence file, not proved.")

CHECKS = {
 "C01": ("Runtime monitoring: every crafted submission (28 honest / corruption classes, each at least once per universe, interleaved with further "
         "rotations, ledger advancement and byte-identical resubmissions) is executed against the real gateway and compared with a three-valued reference verifier "
         "whose digests/XDR/Keccak are computed independently and whose signature validity is known by construction; refused submissions are "
         "diffed against the full pre-state.",
         "runtime monitor: reference-model oracle over crafted proofs + failed-call ledger diff"),
 "C02": ("Runtime monitoring: per-key state machine stepped in lock-step with the gateway over colliding (chain,id) keys, with ledger advancement; "
         "keys that coincide when joined with or without a delimiter; every key x content (and single-field variations) queried after every operation; offline exactly-once checker over the recorded event log.",
         "runtime monitor: reference state machine + status sweep + offline event-log checker"),
 "C03": ("Runtime monitoring: rotation and construction attempts (12 candidate classes x 10 proof classes, including proofs pre-validated through validate_proof, retention up to u64::MAX, ledger "
         "advancement) against a by-value gateway model; epoch and both lookups swept after every operation over all epochs and all hashes ever "
         "seen (including rejected candidates); failed operations diffed against the pre-state; constructor failures observed through a factory.",
         "runtime monitor: reference model + lookup sweep + failed-call ledger diff"),
 "C04": ("Runtime monitoring: for every conforming hub delivery, 31 classes of single-deviation deliveries (each with the approval that matches "
         "it otherwise; fields of up to 17 000 bytes; mixed-case chain names) are executed against the real service at a checkpoint and must fail without touching the ledger; the conforming delivery "
         "must take effect exactly once (also after re-approval and after every temporary entry has expired); payloads are built with the independent ABI encoder; a service wired to a stand-in gateway answering with non-booleans must not act.",
         "runtime monitor: single-deviation delivery variants vs reference model + failed-call ledger diff + exactly-once"),
 "C05": ("Runtime monitoring: balance/custody/supply model over all (token, holder) pairs stepped with outbound and approved inbound transfers, "
         "trusted-chain changes, holders' burns, minter mints, redelivery of executed transfers and ledger advancement (up to the expiry of every temporary entry) over service-deployed (tree code) and canonical tokens; the "
         "announcement to the hub is compared with the independent ABI encoder and Keccak; offline conservation checker per token; some universes work with 13 tokens; the service itself named as gas payer of a token it holds in custody.",
         "runtime monitor: balance/custody reference model + announcement oracle + offline conservation"),
 "C06": ("Runtime monitoring, finite matrix enumerated completely: 43 administrative entry points (incl. migrate after the ownership moved inside the window) x 5 role-transfer histories x up to 8 principals x roles initially distinct / in one hand; "
         "the authorisation forest the code asks for is recorded and replayed with the principal substituted (or withheld, or recorded for other "
         "arguments) at a checkpoint; refused calls diffed against the pre-state; roles re-read after 1.3 M ledgers and after every temporary entry has expired; the whole matrix is run a second time with the contract's migration window open; entry points outside the pinned interface are called by a stranger (every role must read as before) and by the holders followed by an ordinary hand-over (owner and operator must then stay with the newcomer).",
         "runtime monitor: recorded-authorisation replay with principal substitution over the full entry-point x principal x history matrix"),
 "C07": ("Runtime monitoring, finite matrix enumerated completely: 16 user-facing entry points x authorisers (named address, counterparty, contract "
         "owner, stranger, nobody, everyone but the named address, named address for other arguments - one variant per argument position), states without "
         "allowance / with minter or owner as spender / negative mints where nobody may succeed, states in which the named address has pre-approved the contracts involved, lapsed approvals whose entry is still alive, plus the contract-as-caller variant through a forwarding proxy.",
         "runtime monitor: recorded-authorisation replay with authoriser substitution over the entry-point x authoriser matrix + proxy variant"),
 "C08": ("Runtime monitoring, exhaustive within stated bounds: every rotation history of bounded length for every retention setting (0 .. u64::MAX) "
         "and number of initial sets, plus sampled long histories (20..45 rotations, retention around 16 and 33), with ledger advancement between steps; after every step every installed set is probed on every path with fresh proofs and with byte-identical "
         "earlier proofs / approval calls, and compared with current_epoch - epoch <= retention.",
         "runtime monitor: bounded-exhaustive history enumeration with per-step probes of every installed set"),
 "C09": ("Runtime monitoring, exhaustive within stated bounds: every sequence of (boundary-relative ledger time x rotation kind) per minimum delay "
         "(0 .. u64::MAX), deployed at ledger time 0, 1, an ordinary or a very late time, executed with explicitly set ledger timestamps and matching ledger sequence numbers against a model clock updated only "
         "on success; decisive boundary probes at the end of every history.",
         "runtime monitor: bounded-exhaustive ledger-time schedules vs model clock"),
 "C10": ("Runtime monitoring: differential execution of the tree codec against a hand-written Solidity ABI encoder on generated messages, and a "
         "decode => independent re-encode fix-point oracle on hostile byte strings (13 mutation classes incl. every limb boundary of the amount "
         "word), with a panic monitor; the thorough tier repeats ~300k inputs under valgrind memcheck.",
         "runtime monitor: differential + re-encode fix-point oracle over hostile inputs, panic monitor, valgrind memcheck (thorough)"),
 "C11": ("Runtime monitoring: determinism twin (same world at another ledger sequence/time), id algebra over three service instances, every local "
         "deployment configuration (supply x minter), colliding redeployments, deployments replayed with the deployer's authorisation for other arguments, canonical registrations and remote deploy messages stepped against "
         "a write-once registry model with a full registry sweep after every operation and after ledger advancement; every deployed token "
         "(running the tree token code) is read back and receives an approved inbound transfer at a checkpoint.",
         "runtime monitor: registry reference model + write-once sweep + post-deployment behavioural probe"),
 "C12": ("Runtime monitoring: a reference token (checked balances, allowances with expiry, minter set, owner) is stepped in lock-step with the "
         "native InterchainToken through histories that cross allowance expiry, temporary-entry eviction, 1.3 M-ledger jumps and the expiry of every temporary entry; every balance, "
         "allowance, minter flag and the owner are read back after every step; standard token events compared with independently built values.",
         "runtime monitor: reference-model token + full read-back + event-content oracle"),
 "C13": ("Runtime monitoring: each outbound call is executed under an exactly specified authorisation set (own, none, stranger's, own for another "
         "payload / destination address / destination chain, contract-as-caller); the announcement is compared field by field with independently "
         "built values and an independent Keccak-256 for payloads of 0 .. 65536 bytes; gateway ledger entries compared before/after.",
         "runtime monitor: event-content oracle + ledger diff"),
 "C14": ("Runtime monitoring: balance model over all (token, holder) pairs stepped with every gas-service operation under exactly specified "
         "authorisation (roles may coincide; receivers include the service, the collector and the owner); one announcement of the right kind with "
         "the same token and amount per movement; entry points outside the pinned interface are called as a stranger and as the role holders, after which the collector is whoever the contract names; offline conservation checker over announced amounts.",
         "runtime monitor: balance reference model + offline conservation over event log"),
 "C15": ("Runtime monitoring: migration-window model checked on all five production contracts and a test target, run natively, over every "
         "bounded-length sequence over {upgrade, migrate} x {owner, former owner, stranger, nobody} + mid-history ownership transfer (exhaustive in "
         "bounds) with ledger advancement between steps; real code swaps to committed Wasm; Upgrader calls over version x authorisation-coverage x migration-data combinations on native "
         "and really swapped targets with whole-ledger diff on failure.",
         "runtime monitor: window reference model over bounded-exhaustive sequences + Upgrader fault combinations with ledger diff"),
 "C16": ("Runtime monitoring: single-deviation deliveries to the shipped Example app and to a minimal app using the executable interface, each "
         "compared with the gateway message model (including approvals for (chain, id) pairs that coincide only when joined with a delimiter), with time passing before approvals and before deliveries, redelivery and redelivery after the "
         "approval was relayed again; failed deliveries diffed against the pre-state; effects observed in the event log.",
         "runtime monitor: delivery-variant oracle against gateway message model + ledger diff"),
 "C17": ("Runtime monitoring: operator-set model stepped with add/remove/transfer/execute under exactly specified authorisation (own, none, "
         "stranger's, owner's, own for other arguments), the target contract itself as a member, and ledger advancement; forwarded calls observed at a probe target that records "
         "(function, args), returns configured values or fails; return values and recorded calls compared as XDR.",
         "runtime monitor: set reference model + probe target call log"),
 "C18": ("Runtime monitoring: remote-deployment requests (single-deviation style) over registered/unregistered ids, foreign callers reusing a salt, "
         "trusted/untrusted/removed/hub destinations, representable and unrepresentable metadata (including NUL bytes, whitespace and over-long strings) and all gas boundary values are executed under "
         "exactly specified authorisation and compared with a registry/trust/balance model; the announced payload is compared with the "
         "independent ABI encoding of the metadata read from the token.",
         "runtime monitor: reference model + announcement oracle (independent ABI encoder) + balance diff"),
}

checks = []
for pid in sorted(CHECKS):
    text, tech = CHECKS[pid]
    checks.append({
        "property_id": pid,
        "quick_cmd": "./check %s --tier quick" % pid,
        "thorough_cmd": "./check %s --tier thorough" % pid,
        "evidence_file": "evidence/%s.json" % pid,
        "replay_cmd_template": "./check %s --replay {path}" % pid,
        "engine": "vh",
        "level_claimed": {"category": "exploration", "text": text, "design_ref": "DESIGN.md §5 %s, §10" % pid},
        "level_note": NOTE,
        "technique": tech,
    })

manifest = {
    "version": 1,
    "setup_cmd": "./check --build",
    "hooks": {
        "guard": "--cfg axelar_cgp_soroban_verif (reserved; no source hooks are needed: every observation is made at the contracts' public interface, the contract-event log and the test host's ledger)",
        "enable": "none: the harness links /repo's crates by path with their existing `testutils` features",
        "baseline_off_cmd": "cd /repo && cargo test --workspace --no-fail-fast --offline",
        "source_commits": [],
        "add_only": True,
    },
    "engines": [{
        "name": "vh", "path": "harness", "serves_properties": sorted(CHECKS),
        "kind_free_text": "Rust harness running the tree's contracts natively in the Soroban test host under reference-model monitors; driven, sharded over 16 processes and merged by ./check",
    }],
    "checks": checks,
    "notes": ("All 18 properties are decided by runtime monitors written for this task (no Miri/ASan: the nightly toolchain cannot build the Soroban dependency tree offline; valgrind memcheck is used for C10). "
              "Two genuine defects were repaired in /repo with 'fix:' commits (ff606be C12, 03dc987 C16); two are recorded in KNOWN_FINDINGS.txt (C04, C11) because their repair would break the unedited suite. "
              "Sensitivity is documented in DESIGN.md §10: 146 hand mutants, 341 independently written and confirmed seeded changes under seeded/, 19 hand-written and 128 independently written or derived property-preserving changes (benign_seeded/) that must stay silent."),
    "not_applicable": [],
}
json.dump(manifest, open(os.path.join(ROOT, "MANIFEST.json"), "w"), indent=1)
print("wrote MANIFEST.json with %d checks" % len(checks))
