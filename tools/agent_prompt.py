import sys
pid=sys.argv[1]
prop=open('/tmp/prop-%s.txt'%pid).read()
d='/tmp/wt-%s'%pid
print(f"""You are working in a scratch git worktree of the repository axelarnetwork/axelar-cgp-soroban at {d} (Soroban / Stellar smart contracts in Rust: Axelar gateway, gas service, operators, interchain token, interchain token service, upgrader, example). Work ONLY inside {d}. There is no network: always pass --offline to cargo (and you may set CARGO_NET_OFFLINE=true). The full test suite is `cd {d} && cargo test --workspace --no-fail-fast --offline` (first build takes a few minutes; use a generous timeout). Do not run `cargo test -p <crate>` alone: because of feature unification single-crate builds may fail; always build/test with --workspace (you can add a test-name filter after `--`).

This property must hold for correct code:

{prop}

Your task: design ONE realistic code change to the non-test source (files under {d}/contracts/*/src or {d}/packages/*/src) that BREAKS this property while (a) the workspace still compiles and (b) the entire existing test suite still passes, unedited. It should look like something a maintainer could plausibly introduce (a refactoring slip, an off-by-one, a dropped or weakened check, a changed order of operations, two cooperating sites that each look fine alone) and it should need something specific to manifest: a particular multi-step sequence of operations, an unusual or boundary input, a particular ledger time/sequence, or the interplay of two call sites. Do NOT pick a change that ordinary happy-path use would expose at once, and do not merely delete an obviously tested check. Do not modify, add to or delete any existing test or testdata.

Deliverables, all written under {d}/seeded/ (create the directory):
1. patch.diff: output of `git -C {d} diff` restricted to your source change (not including the demo test).
2. demo.rs: a self-contained Rust integration test (written so it can be dropped in as {d}/contracts/<crate>/tests/seeded_demo.rs; say in NOTES.md which crate) that FAILS with your change applied and PASSES on the unchanged code. Use only crates that are already dev-dependencies of that crate.
3. NOTES.md: which property is broken and how, what exactly is needed for the break to manifest, and the exact commands you ran with their outcomes, covering all three facts: (i) full suite passes with the change, (ii) demo fails with the change, (iii) demo passes without the change.
Leave the worktree with your source change applied and the demo test in place (do not commit). Do not read anything outside {d} other than the cargo registry/toolchain (in particular do not look at /verif or /repo). Finish with a short summary of the change and the verification results.""")
