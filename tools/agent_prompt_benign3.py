import sys
# Prompt for a sub-agent that writes PROPERTY-PRESERVING changes (false-alarm self-test).
# usage: agent_prompt_benign.py <ID>   (property text in /tmp/prop-<ID>.txt, worktree /tmp/wtb-<ID>)
pid = sys.argv[1]
prop = open('/tmp/prop-%s.txt' % pid).read()
d = '/tmp/wtd-%s' % pid
print(f"""You are working in a scratch git worktree of the repository axelarnetwork/axelar-cgp-soroban at {d} (Soroban / Stellar smart contracts in Rust: Axelar gateway, gas service, operators, interchain token, interchain token service, upgrader, example). Work ONLY inside {d}. There is no network: always pass --offline to cargo (and you may set CARGO_NET_OFFLINE=true). The full test suite is `cd {d} && cargo test --workspace --no-fail-fast --offline` (first build takes a few minutes; use a generous timeout). Do not run `cargo test -p <crate>` alone: because of feature unification single-crate builds may fail; always build/test with --workspace.

This property holds for the current code:

{prop}

Somebody has built an automated checker for this property that only observes the contracts from the outside (calls, return values, events, ledger entries; it also notices entry points it has never seen and tries them out with arguments and authorisations it has at hand) and compares everything with its own model of what the property demands. Your task is to stress that checker for FALSE ALARMS: design TWO DIFFERENT realistic code changes, A and B, to the non-test source (files under {d}/contracts/*/src or {d}/packages/*/src) in the code this property is about. Each change, applied on its own to the unchanged code, must
 (a) compile, and the entire existing test suite must still pass, unedited;
 (b) PRESERVE the property above for every input, history and configuration it quantifies over (and not break any other sensible guarantee of the contracts: do not weaken authorisation, conservation, replay protection and the like anywhere);
 (c) nevertheless be a real change of behaviour or structure.
Design only TWO changes, A and B (ignore the mention of a third one above and below), each of one of these kinds, implemented CORRECTLY so that the property still holds:
 (i) special behaviour of a contract in the state between `upgrade` and `migrate` (the migration window), or right after construction before its first ordinary use: pausing or refusing some or all ordinary entry points while the migration is pending, deferring something until `migrate`, initialising something lazily on first use - without letting anybody do in that state what they could not do otherwise, and without losing or duplicating any effect;
 (ii) a bounded structure that fills up (a cache, ring, mirror, filter, counter or list with a fixed capacity) added as an optimisation next to the authoritative storage, with correct eviction and invalidation, so that behaviour is the same however many items (tokens, messages, signer sets, operators, registrations) there are;
 (iii) special handling of an address argument that is the contract itself, another contract of the system, a role holder or an address that cannot sign - refusing it early with a specific error, or serving it through a separate but equally strict path.
Say in NOTES.md which kind each change is.
Prefer changes that a maintainer could plausibly make and that look risky at first sight but are in fact correct.

Deliverables, written under {d}/seeded/A/ and {d}/seeded/B/ (create the directories); for each:
1. patch.diff: `git diff` of the source change alone against the unchanged HEAD, so that `git apply patch.diff` on a clean worktree reproduces it.
2. NOTES.md: what changes observably, and a careful argument why the property still holds for everything it quantifies over; if the change refuses some requests that used to be accepted, say exactly which; the exact commands you ran and their outcomes (the full existing suite passes with the change).
3. demo.rs (optional but welcome): a self-contained Rust integration test that passes WITH the change and exercises the property around the changed code (it will be installed as <crate dir>/tests/seeded_demo.rs), plus a one-line text file CRATE with the crate directory it belongs to, relative to the worktree root.
When you are done leave the worktree CLEAN: no source change applied and no demo test installed (`git checkout -- .`, remove any seeded_demo.rs and generated test_snapshots); only the seeded/ directory remains. Do not commit and do NOT use `git stash` (the stash is shared between worktrees; use `git diff > file`, `git checkout -- .`, `git apply` instead). Do not read anything outside {d} other than the cargo registry/toolchain (in particular do not look at /verif or /repo). Finish with a short summary of the three changes.""")
