#!/usr/bin/env python3
"""Store confirmed sub-agent deliverables under seeded/. Usage: store_seeded.py <round-tag> <wt-prefix> <confirm-prefix> <rows.json>
rows: [[sid, worktree-prop, sub, breaks-prop, slug, change, needs, detection-status, strengthening], ...]"""
import json, os, shutil, sys
tag, wtp_prefix, conf_prefix, rows_file = sys.argv[1:5]
ROOT = os.path.dirname(os.path.dirname(os.path.abspath(__file__)))
rows = json.load(open(rows_file))
assert all(len(r) == 9 for r in rows), "every row needs 9 fields"
for sid, wtp, sub, prop, slug, change, needs, status, strength in json.load(open(rows_file)):
    name = "%s-%s-%s" % (sid, prop, slug)
    d = os.path.join(ROOT, "seeded", name); os.makedirs(d, exist_ok=True)
    src = "%s%s/seeded/%s" % (wtp_prefix, wtp, sub)
    shutil.copy(src + "/patch.diff", d + "/patch.diff"); shutil.copy(src + "/demo.rs", d + "/demo.rs"); shutil.copy(src + "/NOTES.md", d + "/AGENT_NOTES.md")
    crate = open(src + "/CRATE").read().split()[0]
    conf = json.load(open("%s%s-%s.json" % (conf_prefix, wtp, sub)))
    assert conf["suite_rc"] == 0 and conf["demo_with_change_rc"] != 0 and conf["demo_without_change_rc"] == 0, conf
    meta = {"id": name, "breaks_property": prop, "assigned_property": wtp, "demo_crate": crate, "demo_install_as": crate + "/tests/seeded_demo.rs",
      "change": change, "needs_to_manifest": needs,
      "written_by": "independent sub-agent (%s: two changes per property, each in an assigned mechanism category) given only the property text and a scratch worktree of /repo" % tag,
      "confirmed_by_me": {"how": "tools/confirm_seeded2.sh on a clean scratch worktree: (i) git apply patch.diff; cargo test --workspace --no-fail-fast --offline, (ii) demo installed, cargo test --workspace --offline --test seeded_demo, (iii) the same after git apply -R",
        "suite_with_change_passed_failed": conf["suite_passed_failed"], "suite_rc": conf["suite_rc"], "demo_with_change_rc": conf["demo_with_change_rc"], "demo_without_change_rc": conf["demo_without_change_rc"]},
      "detection": {"status": status, "strengthening": strength},
      "how_to_run_checks_against_it": "git -C /repo apply /verif/seeded/%s/patch.diff && ./check %s --tier quick ; git -C /repo checkout -- ." % (name, prop)}
    json.dump(meta, open(d + "/meta.json", "w"), indent=1)
    print("stored", name)
