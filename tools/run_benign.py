#!/usr/bin/env python3
"""False-alarm self-test: apply each property-preserving change of mutants/benign.json and run
every check (quick tier); none may report a violation or become inconclusive."""
import json, os, subprocess, sys
ROOT = os.path.dirname(os.path.dirname(os.path.abspath(__file__)))
REPO = os.path.join(os.path.dirname(ROOT), "repo") if os.path.isdir(os.path.join(os.path.dirname(ROOT), "repo", "contracts")) else "/repo"
ben = json.load(open(os.path.join(ROOT, "mutants", "benign.json")))
checks = [c["property_id"] for c in json.load(open(os.path.join(ROOT, "MANIFEST.json")))["checks"]]
args = [a for a in sys.argv[1:]]
if "--checks" in args:  # restrict the checks run per change (partial re-runs after one check changed)
    i = args.index("--checks"); checks = args[i + 1].split(","); del args[i:i + 2]
only = args[0].split(",") if args else None
def clean():
    subprocess.run(["git", "-C", REPO, "checkout", "--", "."], check=True)
    subprocess.run(["git", "-C", REPO, "clean", "-fdq", "contracts", "packages"], check=True)  # files a patch added
assert subprocess.run(["git", "-C", REPO, "status", "--porcelain", "--untracked-files=no"], stdout=subprocess.PIPE, text=True).stdout.strip() == "", "repo not clean"
res = []
try:
    for b in ben:
        if only and b["id"] not in only:
            continue
        edits = b.get("edits") or [{"file": b["file"], "old": b["old"], "new": b["new"]}]
        ok = True
        for e in edits:
            p = os.path.join(REPO, e["file"]); s = open(p).read()
            if s.count(e["old"]) != 1:
                print("BENIGN %s: pattern occurs %d times" % (b["id"], s.count(e["old"]))); ok = False; break
            open(p, "w").write(s.replace(e["old"], e["new"]))
        fired = {}
        if ok:
            for c in checks:
                r = subprocess.run([os.path.join(ROOT, "check"), c, "--tier", "quick"], cwd=ROOT, stdout=subprocess.PIPE, stderr=subprocess.STDOUT, text=True)
                if r.returncode != 0:
                    fired[c] = {"rc": r.returncode, "lines": [l[:200] for l in r.stdout.splitlines() if l.startswith(("VIOLATION", "INCONCLUSIVE"))][:3]}
        clean()
        print("BENIGN %-45s %s %s" % (b["id"], "SILENT" if ok and not fired else "ALARM", json.dumps(fired) if fired else "")); sys.stdout.flush()
        res.append({"id": b["id"], "note": b.get("note"), "fired": fired})
finally:
    clean()
res_path = os.path.join(ROOT, "mutants", "benign_results.json" if "--checks" not in sys.argv else "benign_results_partial.json")
if only and os.path.exists(res_path):
    prev = {r["id"]: r for r in json.load(open(res_path))}
    prev.update({r["id"]: r for r in res})
    order = [b["id"] for b in ben]
    res = [prev[k] for k in order if k in prev]
json.dump(res, open(res_path, "w"), indent=1)
