#!/usr/bin/env python3
"""Write harness/src/pinned_fn_names.txt: every `fn name(` in the non-test sources of the PINNED tree (contracts/*/src,
packages/axelar-soroban-std-derive/src, packages/axelar-soroban-std/src). Run on the pinned tree only.
univ::unknown_entry_points treats a name that is not in this list (or that a derive macro could newly attach to a
contract) as an entry point the workloads have never heard of, and probes it."""
import os, re, sys
REPO = sys.argv[1] if len(sys.argv) > 1 else "/repo"
names = set()
for base in ["contracts", "packages/axelar-soroban-std-derive/src", "packages/axelar-soroban-std/src"]:
    for d, _, fs in os.walk(os.path.join(REPO, base)):
        if "/tests" in d or "/target" in d or "testdata" in d:
            continue
        for f in fs:
            if f.endswith(".rs"):
                found = re.findall(r"(?<![A-Za-z0-9_])fn ([A-Za-z0-9_]+)\(", open(os.path.join(d, f)).read())
                rel = os.path.relpath(os.path.join(d, f), REPO)
                m = re.match(r"contracts/([^/]+)/src/contract\.rs$", rel)
                # names of a contract's contract.rs are known for that contract only; all others for everybody
                names.update(((m.group(1) if m else "*") + " " + n) for n in found)
out = os.path.join(os.path.dirname(os.path.dirname(os.path.abspath(__file__))), "harness", "src", "pinned_fn_names.txt")
open(out, "w").write("\n".join(sorted(names)) + "\n")
print(len(names), "names ->", out)
