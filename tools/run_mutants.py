#!/usr/bin/env python3
"""Sensitivity self-test: apply each hand-written mutant of /verif/mutants/mutants.json to /repo's
working tree (string replacement), run the owning checks (quick tier) and optionally every other
implemented check, record which fire, and restore the tree (git checkout) straight afterwards.

  tools/run_mutants.py [--only id[,id]] [--others] [--props C01,C02]
"""
import json, os, subprocess, sys, time

ROOT = os.path.dirname(os.path.dirname(os.path.abspath(__file__)))
# when this script runs from a scratch copy made by tools/mk_scratch.sh, the repo copy sits next to it
REPO = os.path.join(os.path.dirname(ROOT), "repo") if os.path.isdir(os.path.join(os.path.dirname(ROOT), "repo", "contracts")) else "/repo"
muts = json.load(open(os.path.join(ROOT, "mutants", "mutants.json")))
manifest = json.load(open(os.path.join(ROOT, "MANIFEST.json")))
implemented = [c["property_id"] for c in manifest["checks"]]

only = None
others = False
props_filter = None
a = sys.argv[1:]
i = 0
while i < len(a):
    if a[i] == "--only":
        only = a[i + 1].split(","); i += 2
    elif a[i] == "--others":
        others = True; i += 1
    elif a[i] == "--props":
        props_filter = a[i + 1].split(","); i += 2
    else:
        i += 1

def clean():
    subprocess.run(["git", "-C", REPO, "checkout", "--", "."], check=True)
    subprocess.run(["git", "-C", REPO, "clean", "-fdq", "contracts", "packages"], check=True)  # files a patch added

def run_check(p):
    r = subprocess.run([os.path.join(ROOT, "check"), p, "--tier", "quick"], cwd=ROOT,
                       stdout=subprocess.PIPE, stderr=subprocess.STDOUT, text=True)
    viol = [l for l in r.stdout.splitlines() if l.startswith("VIOLATION")]
    return r.returncode, viol, r.stdout

assert subprocess.run(["git", "-C", REPO, "status", "--porcelain", "--untracked-files=no"], stdout=subprocess.PIPE, text=True).stdout.strip() == "", "repo not clean"
results = []
try:
    for m in muts:
        if only and m["id"] not in only:
            continue
        if props_filter and not set(m["breaks"]) & set(props_filter):
            continue
        edits = m.get("edits") or [{"file": m["file"], "old": m["old"], "new": m["new"]}]
        bad = False
        for e in edits:
            path = os.path.join(REPO, e["file"])
            src = open(path).read()
            if src.count(e["old"]) != 1:
                print("MUTANT %s: pattern occurs %d times, skipped" % (m["id"], src.count(e["old"])))
                bad = True
                break
            open(path, "w").write(src.replace(e["old"], e["new"]))
        if bad:
            clean()
            results.append({"id": m["id"], "status": "pattern-mismatch"})
            continue
        row = {"id": m["id"], "breaks": m["breaks"], "fired": {}, "others_fired": {}}
        try:
            for p in m["breaks"]:
                if p not in implemented:
                    row["fired"][p] = "not-implemented"
                    continue
                rc, viol, out = run_check(p)
                row["fired"][p] = {"rc": rc, "sigs": [v.split("sig=")[1].split(" ::")[0] for v in viol if "sig=" in v][:4]}
                if rc == 2:
                    row["fired"][p]["tail"] = out[-300:]
            if others:
                for p in implemented:
                    if p in m["breaks"]:
                        continue
                    rc, viol, out = run_check(p)
                    if rc != 0:
                        row["others_fired"][p] = {"rc": rc, "sigs": [v.split("sig=")[1].split(" ::")[0] for v in viol if "sig=" in v][:3]}
        finally:
            clean()
        caught = all(isinstance(v, dict) and v["rc"] == 1 for v in row["fired"].values() if v != "not-implemented")
        row["caught"] = caught
        row["equivalent"] = m.get("equivalent")
        print("MUTANT %-40s %s %s %s" % (m["id"], "EQUIVALENT" if m.get("equivalent") else ("CAUGHT" if caught else "MISSED"), json.dumps(row["fired"]), json.dumps(row["others_fired"]) if row["others_fired"] else ""))
        sys.stdout.flush()
        results.append(row)
finally:
    clean()
json.dump(results, open(os.path.join(ROOT, "mutants", "last_results.json"), "w"), indent=1)
