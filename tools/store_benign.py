#!/usr/bin/env python3
"""Store confirmed property-preserving changes written by sub-agents under benign_seeded/.
usage: store_benign.py <wt-prefix> <confirm-prefix> <rows.json>; rows: [[bid, worktree-prop, sub, slug, what-changes], ...]"""
import json, os, shutil, sys
wtp_prefix, conf_prefix, rows_file = sys.argv[1:4]
ROOT = os.path.dirname(os.path.dirname(os.path.abspath(__file__)))
for bid, wtp, sub, slug, what in json.load(open(rows_file)):
    name = "%s-%s-%s" % (bid, wtp, slug)
    d = os.path.join(ROOT, "benign_seeded", name); os.makedirs(d, exist_ok=True)
    src = "%s%s/seeded/%s" % (wtp_prefix, wtp, sub)
    shutil.copy(src + "/patch.diff", d + "/patch.diff"); shutil.copy(src + "/NOTES.md", d + "/AGENT_NOTES.md")
    if os.path.exists(src + "/demo.rs"):
        shutil.copy(src + "/demo.rs", d + "/demo.rs")
    conf = json.load(open("%s%s-%s.json" % (conf_prefix, wtp, sub)))
    assert conf["suite_rc"] == 0, conf
    meta = {"id": name, "preserves_property": wtp, "what_changes": what, "breaks": [],
      "written_by": "independent sub-agent given only the property text and a scratch worktree of /repo, asked for realistic changes that preserve the property but change something it does not fix (tools/agent_prompt_benign.py)",
      "confirmed_by_me": {"how": "tools/confirm_benign.sh on a clean scratch worktree: git apply patch.diff; cargo test --workspace --no-fail-fast --offline", "suite_with_change_passed_failed": conf["suite_passed_failed"], "suite_rc": conf["suite_rc"], "demo_with_change_rc": conf.get("demo_with_change_rc")},
      "how_to_run_checks_against_it": "git -C /repo apply /verif/benign_seeded/%s/patch.diff && for p in C01 .. C18: ./check $p --tier quick ; git -C /repo checkout -- .   (tools/run_benign_seeded.py does this)" % name}
    json.dump(meta, open(d + "/meta.json", "w"), indent=1)
    print("stored", name)
