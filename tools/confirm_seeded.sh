#!/bin/bash
# Confirm a sub-agent's seeded change in its scratch worktree:
#   (i) existing suite passes with the change (demo moved aside)
#   (ii) demo fails with the change   (iii) demo passes without the change
# usage: confirm_seeded.sh <worktree> ; prints a JSON line
WT=$1
cd "$WT" || exit 2
export CARGO_NET_OFFLINE=true
DEMO=$(find contracts packages -name seeded_demo.rs | head -1)
[ -z "$DEMO" ] && { echo "{\"wt\":\"$WT\",\"error\":\"no demo in place\"}"; exit 1; }
git diff --quiet -- contracts packages && { echo "{\"wt\":\"$WT\",\"error\":\"no source change applied\"}"; exit 1; }
mv "$DEMO" /tmp/$(basename $WT)-demo.rs
cargo test --workspace --no-fail-fast --offline > /tmp/$(basename $WT)-suite.log 2>&1; S=$?
SP=$(grep -E "^test result" /tmp/$(basename $WT)-suite.log | awk '{p+=$4; f+=$6} END {print p","f}')
mv /tmp/$(basename $WT)-demo.rs "$DEMO"
cargo test --workspace --offline --test seeded_demo > /tmp/$(basename $WT)-demo-with.log 2>&1; W=$?
git diff -- contracts packages ':!*seeded_demo.rs' > /tmp/$(basename $WT)-patch.diff
git apply -R /tmp/$(basename $WT)-patch.diff
cargo test --workspace --offline --test seeded_demo > /tmp/$(basename $WT)-demo-without.log 2>&1; O=$?
git apply /tmp/$(basename $WT)-patch.diff
echo "{\"wt\":\"$WT\",\"demo\":\"$DEMO\",\"suite_rc\":$S,\"suite_passed_failed\":\"$SP\",\"demo_with_change_rc\":$W,\"demo_without_change_rc\":$O}"
