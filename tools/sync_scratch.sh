#!/bin/bash
# Refresh an existing scratch copy (made by mk_scratch.sh) from /verif and /repo, keeping its target dir.
set -e
if [ -n "$(git -C /repo status --porcelain --untracked-files=all contracts packages)" ]; then echo "/repo is not clean (a run is patching it?): refusing to sync" >&2; exit 1; fi
D=${1:-/tmp/mut}
git -C "$D/repo" checkout -- . 2>/dev/null || true
rsync -a --exclude target --exclude .git /repo/ "$D/repo/"
(cd "$D/repo" && git add -A && (git -c user.email=x@x -c user.name=x commit -qm sync || true))
rsync -a --exclude target --exclude evidence --exclude .git /verif/ "$D/verif/"
sed -i "s#\"/repo/#\"$D/repo/#g" "$D/verif/harness/Cargo.toml" "$D/verif/harness/src/props/c15.rs" "$D/verif/harness/src/props/c06.rs"
echo "scratch $D refreshed"
