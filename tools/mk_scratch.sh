#!/bin/bash
# Create a scratch copy of /repo and of the harness (outside /repo and /verif) so that mutants
# and seeded patches can be applied without touching /repo. Usage: tools/mk_scratch.sh <dir>
# Remove the directory (it holds a ~2 GB target dir) when done.
set -e
D=${1:-/tmp/mut}
rm -rf "$D"
mkdir -p "$D/repo" "$D/verif"
rsync -a --exclude target --exclude .git /repo/ "$D/repo/"
(cd "$D/repo" && git init -q && git add -A && git -c user.email=x@x -c user.name=x commit -qm base)
rsync -a --exclude target --exclude evidence --exclude .git /verif/ "$D/verif/"
sed -i "s#/repo/#$D/repo/#g" "$D/verif/harness/Cargo.toml" "$D/verif/harness/src/props/c15.rs" "$D/verif/harness/src/props/c06.rs"
echo "scratch at $D"
