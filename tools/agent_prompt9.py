import sys
pid=sys.argv[1]; ca=sys.argv[2]; cb=sys.argv[3]
CATS={
 'M29': "events: which contract emits them, what goes into topics versus data, the order of events within one call, an event emitted on a path that later fails, or not emitted on a rarely taken successful path",
 'M30': "storage class, key and lifetime: an entry moved between instance, persistent and temporary storage or keyed differently, with an incomplete fallback or migration for entries written by the old code, or a lifetime (TTL) that no longer matches how long the entry is needed",
 'M31': "authorisation trees: `require_auth` versus `require_auth_for_args`, authorisation asked inside a sub-call or inside a failing `try_` call, the contract's own authorisation (`authorize_as_current_contract`) covering more than intended, who is asked when two roles coincide",
 'M32': "an optimisation or caching layer: memoised results, early exits for inputs that look like no-ops, short-circuits when two arguments are equal or a value is unchanged",
 'M33': "a new convenience feature (a new entry point, a new optional argument, a batch variant of an existing call) that shares state with existing features",
 'M34': "the boundary between what the callee checks and what the caller checks: a check moved from one contract to the contract it calls (or the other way round), or deleted on one side as redundant",
}
prop=open('/tmp/prop-%s.txt'%pid).read()
d='/tmp/wt9-%s'%pid
print(f"""You are working in a scratch git worktree of the repository axelarnetwork/axelar-cgp-soroban at {d} (Soroban / Stellar smart contracts in Rust: Axelar gateway, gas service, operators, interchain token, interchain token service, upgrader, example). Work ONLY inside {d}. There is no network: always pass --offline to cargo (and you may set CARGO_NET_OFFLINE=true). The full test suite is `cd {d} && cargo test --workspace --no-fail-fast --offline` (first build takes a few minutes; use a generous timeout). Do not run `cargo test -p <crate>` alone: because of feature unification single-crate builds may fail; always build/test with --workspace (you can add `--test <name>` or a test-name filter after `--`).

This property must hold for correct code:

{prop}

Your task: design TWO DIFFERENT realistic code changes, A and B, to the non-test source (files under {d}/contracts/*/src or {d}/packages/*/src). Each one, applied on its own to the unchanged code, must BREAK this property while (a) the workspace still compiles and (b) the entire existing test suite still passes, unedited.
- Change A must be about: {CATS[ca]}.
- Change B must be about: {CATS[cb]}.
If a category truly cannot produce a break of this property, pick the closest mechanism you can and say so in NOTES.md. Each change should look like something a maintainer could plausibly introduce (an optimisation, a refactor, a convenience feature with a plausible comment) and must need something specific to manifest: a particular multi-step sequence of operations, an unusual or boundary input, a particular ledger time/sequence, a particular configuration value, or the interplay of two call sites. Prefer subtle over blunt: the break should survive a reviewer skimming the diff, ordinary happy-path use must not expose it, and do not merely delete an obviously tested check. Do not modify, add to or delete any existing test or testdata.

Deliverables, written under {d}/seeded/A/ and {d}/seeded/B/ (create the directories); for each of A and B:
1. patch.diff: `git diff` of the source change alone against the unchanged HEAD (not including the demo test), so that `git apply patch.diff` on a clean worktree reproduces it.
2. demo.rs: a self-contained Rust integration test that FAILS with the change applied and PASSES on the unchanged code; it will be installed as <crate dir>/tests/seeded_demo.rs. Use only crates that are already dev-dependencies of that crate.
3. CRATE: a one-line text file with the crate directory the demo belongs to, relative to the worktree root (e.g. contracts/axelar-gateway).
4. NOTES.md: how the property is broken, what exactly is needed for the break to manifest, and the exact commands you ran with their outcomes, covering all three facts: (i) the full existing suite passes with the change, (ii) the demo fails with the change, (iii) the demo passes without the change.
When you are done leave the worktree CLEAN: no source change applied and no demo test installed (`git checkout -- .`, remove any seeded_demo.rs and generated test_snapshots); only the seeded/ directory remains. Do not commit and do NOT use `git stash` (the stash is shared between worktrees; use `git diff > file`, `git checkout -- .`, `git apply` instead). Do not read anything outside {d} other than the cargo registry/toolchain (in particular do not look at /verif or /repo). Finish with a short summary of both changes and the verification results.""")
