#!/bin/bash
# Confirm a sub-agent's property-preserving change <worktree>/seeded/<sub>/patch.diff: the unedited suite passes with it
# (and its optional demo, which exercises the property around the changed code, passes with it too).
WT=$1; SUB=$2
cd "$WT" || exit 2
export CARGO_NET_OFFLINE=true
S="$WT/seeded/$SUB"
git checkout -- . ; find contracts packages -name seeded_demo.rs -delete
git apply "$S/patch.diff" || { echo "{\"wt\":\"$WT\",\"sub\":\"$SUB\",\"error\":\"patch does not apply\"}"; exit 1; }
T=/tmp/$(basename $WT)-$SUB
cargo test --workspace --no-fail-fast --offline > $T-suite.log 2>&1; SRC=$?
SP=$(grep -E "^test result" $T-suite.log | awk '{p+=$4; f+=$6} END {print p","f}')
W=-1
if [ -f "$S/demo.rs" ] && [ -f "$S/CRATE" ]; then
  CR=$(head -1 "$S/CRATE" | tr -d '[:space:]')
  mkdir -p "$CR/tests"; cp "$S/demo.rs" "$CR/tests/seeded_demo.rs"
  cargo test --workspace --offline --test seeded_demo > $T-with.log 2>&1; W=$?
  rm -f "$CR/tests/seeded_demo.rs"
fi
git checkout -- . ; git clean -fdq contracts packages
echo "{\"wt\":\"$WT\",\"sub\":\"$SUB\",\"suite_rc\":$SRC,\"suite_passed_failed\":\"$SP\",\"demo_with_change_rc\":$W}"
