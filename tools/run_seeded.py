#!/usr/bin/env python3
"""Apply every /verif/seeded/<id>/patch.diff to the repo (or scratch copy), run the owning check
(quick tier; all checks with --all) and undo the patch straight afterwards."""
import json, os, subprocess, sys
ROOT = os.path.dirname(os.path.dirname(os.path.abspath(__file__)))
REPO = os.path.join(os.path.dirname(ROOT), "repo") if os.path.isdir(os.path.join(os.path.dirname(ROOT), "repo", "contracts")) else "/repo"
allc = "--all" in sys.argv
only = [x for a in sys.argv[1:] if not a.startswith("--") for x in a.split(",")]
if "--help" in sys.argv or "-h" in sys.argv:
    print(__doc__ + "\nusage: run_seeded.py [--all] [S201,S223 | S201-C02-... ...]   (ids or id prefixes up to the first dash)"); sys.exit(0)
checks = [c["property_id"] for c in json.load(open(os.path.join(ROOT, "MANIFEST.json")))["checks"]]
def clean():
    subprocess.run(["git", "-C", REPO, "checkout", "--", "."], check=True)
    subprocess.run(["git", "-C", REPO, "clean", "-fdq", "contracts", "packages"], check=True)  # files a patch added
assert subprocess.run(["git", "-C", REPO, "status", "--porcelain", "--untracked-files=no"], stdout=subprocess.PIPE, text=True).stdout.strip() == "", "repo not clean"
out = []
try:
    for sid in sorted(os.listdir(os.path.join(ROOT, "seeded"))):
        d = os.path.join(ROOT, "seeded", sid)
        if not os.path.isdir(d) or (only and sid not in only and sid.split("-")[0] not in only):
            continue
        meta = json.load(open(os.path.join(d, "meta.json")))
        r = subprocess.run(["git", "-C", REPO, "apply", os.path.join(d, "patch.diff")])
        if r.returncode != 0:
            print("SEEDED %s: patch does not apply" % sid); continue
        row = {"id": sid, "property": meta["breaks_property"], "fired": {}}
        try:
            for c in (checks if allc else [meta["breaks_property"]]):
                p = subprocess.run([os.path.join(ROOT, "check"), c, "--tier", "quick"], cwd=ROOT, stdout=subprocess.PIPE, stderr=subprocess.STDOUT, text=True)
                if p.returncode != 0:
                    row["fired"][c] = {"rc": p.returncode, "sigs": [l.split("sig=")[1].split(" ::")[0] for l in p.stdout.splitlines() if l.startswith("VIOLATION") and "sig=" in l][:4]}
        finally:
            clean()
        own = row["fired"].get(meta["breaks_property"], {}).get("rc") == 1
        print("SEEDED %-45s %s %s" % (sid, "CAUGHT" if own else "MISSED", json.dumps(row["fired"]))); sys.stdout.flush()
        out.append(row)
finally:
    clean()
res_path = os.path.join(ROOT, "seeded", "last_results.json")
if only and os.path.exists(res_path):
    # partial run: merge into the previous results
    prev = {r["id"]: r for r in json.load(open(res_path))}
    prev.update({r["id"]: r for r in out})
    out = [prev[k] for k in sorted(prev)]
json.dump(out, open(res_path, "w"), indent=1)
