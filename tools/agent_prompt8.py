import sys
pid=sys.argv[1]; ca=sys.argv[2]; cb=sys.argv[3]
CATS={
 'M1': "storage durability, entry lifetime (TTL) or dependence on ledger time / ledger sequence",
 'M2': "an arithmetic boundary inside a wide integer, a truncating cast, or an overflow that only an extreme (but legal) configuration or input value reaches",
 'M3': "authorisation: what exactly the required authorisation covers (e.g. narrowed arguments), which principal is asked in a rarely taken branch, or a check that an early return skips",
 'M4': "an error path: a swallowed or downgraded error (`let _ =`, `.ok()`, a `try_` call), partial effects that survive a failed step",
 'M5': "aliasing or degenerate arguments: two arguments or two roles being the same address, a contract naming itself, empty vectors/strings, zero values",
 'M6': "ordering: check-then-act across a batch or across two entry points, a value read before an update and used after it, a cache or snapshot that goes stale",
 'M7': "the interplay of two contracts (for instance token service with gateway, gas service or token; upgrader with its target; an application with the gateway)",
 'M9': "how a composite key, identifier or hash is derived from several fields (domain separation, delimiters, field order, which fields are covered)",
 'M10': "a sentinel or default value standing in for 'absent' (0, empty, None vs Some(default), unwrap_or) that a legitimate value can also take",
 'M11': "behaviour that differs between the first use and later uses (initialisation on first use, lazily created entries, empty collections, the very first epoch/id/ledger)",
 'M12': "a limit, cap, batching or size threshold (sizes, counts, lengths) beyond which a different code path is taken",
 'M13': "the relation between what an event or return value reports and what was actually done",
 'M14': "interaction with the upgrade/migration or ownership/operatorship-transfer machinery: state that should survive it, be reset by it or be checked against the new holder",
 'M15': "inputs that are equal under one comparison and different under another (letter case, encoding, padding, normalisation, account address vs contract address, string vs bytes)",
 'M16': "a misbehaving or unusual callee (token, application, target, gas service): odd return values, failing in an unusual way, calling other contracts, being the same contract as another party",
 'M17': "two entry points (or a constructor and an entry point, or an entry point and the migration) that reach the same state, one of which lacks a check the other has",
 'M18': "time of check versus time of use inside one call: a value read or checked before a cross-contract call (or before an authorisation) and used after it",
 'M21': "the shared library code (packages/*) that several contracts use: a default or fallback implementation, a helper, a derive macro",
 'M22': "construction and configuration: unusual but legal constructor arguments or configuration values (the same address in two roles, empty strings, zero or maximal numbers) that only matter later",
 'M23': "a batch or list argument: per-item versus per-batch effects, one odd item among good ones, the order of items, an item that appears twice",
 'M24': "an error variant: one specific failure of a callee or helper mapped to success, or reported as another failure, so that the caller's handling goes wrong",
 'M25': "numeric representation: conversions between i128 / u128 / u64 / u32 / U256, signs, saturating versus checked arithmetic, comparisons across types",
 'M26': "the interplay of two features that are each fine alone (for instance a rotation and an approval in the same ledger, a trust change around a transfer, a role transfer around an upgrade, an allowance and an ownership change)",
 'M27': "read-only (view) functions: a view that writes, a view whose answer differs from what the acting path uses, a view that another contract relies on for a decision",
 'M28': "data kept in two places (a cache, an index, a mirror, a denormalised field) whose copies can diverge",
 'M8': "asymmetry between two places that must agree: encode vs decode, event vs stored state, view function vs the path that acts, two derivations of the same identifier",
}
prop=open('/tmp/prop-%s.txt'%pid).read()
d='/tmp/wt8-%s'%pid
print(f"""You are working in a scratch git worktree of the repository axelarnetwork/axelar-cgp-soroban at {d} (Soroban / Stellar smart contracts in Rust: Axelar gateway, gas service, operators, interchain token, interchain token service, upgrader, example). Work ONLY inside {d}. There is no network: always pass --offline to cargo (and you may set CARGO_NET_OFFLINE=true). The full test suite is `cd {d} && cargo test --workspace --no-fail-fast --offline` (first build takes a few minutes; use a generous timeout). Do not run `cargo test -p <crate>` alone: because of feature unification single-crate builds may fail; always build/test with --workspace (you can add `--test <name>` or a test-name filter after `--`).

This property must hold for correct code:

{prop}

Your task: design TWO DIFFERENT realistic code changes, A and B, to the non-test source (files under {d}/contracts/*/src or {d}/packages/*/src). Each one, applied on its own to the unchanged code, must BREAK this property while (a) the workspace still compiles and (b) the entire existing test suite still passes, unedited.
- Change A must be about: {CATS[ca]}.
- Change B must be about: {CATS[cb]}.
If a category truly cannot produce a break of this property, pick the closest mechanism you can and say so in NOTES.md. Each change should look like something a maintainer could plausibly introduce (an optimisation, a refactor, a convenience feature with a plausible comment) and must need something specific to manifest: a particular multi-step sequence of operations, an unusual or boundary input, a particular ledger time/sequence, a particular configuration value, or the interplay of two call sites. Prefer subtle over blunt: the break should survive a reviewer skimming the diff, ordinary happy-path use must not expose it, and do not merely delete an obviously tested check. Do not modify, add to or delete any existing test or testdata.

Deliverables, written under {d}/seeded/A/ and {d}/seeded/B/ (create the directories); for each of A and B:
1. patch.diff: `git diff` of the source change alone against the unchanged HEAD (not including the demo test), so that `git apply patch.diff` on a clean worktree reproduces it.
2. demo.rs: a self-contained Rust integration test that FAILS with the change applied and PASSES on the unchanged code; it will be installed as <crate dir>/tests/seeded_demo.rs. Use only crates that are already dev-dependencies of that crate.
3. CRATE: a one-line text file with the crate directory the demo belongs to, relative to the worktree root (e.g. contracts/axelar-gateway).
4. NOTES.md: how the property is broken, what exactly is needed for the break to manifest, and the exact commands you ran with their outcomes, covering all three facts: (i) the full existing suite passes with the change, (ii) the demo fails with the change, (iii) the demo passes without the change.
When you are done leave the worktree CLEAN: no source change applied and no demo test installed (`git checkout -- .`, remove any seeded_demo.rs and generated test_snapshots); only the seeded/ directory remains. Do not commit. Do not read anything outside {d} other than the cargo registry/toolchain (in particular do not look at /verif or /repo). Finish with a short summary of both changes and the verification results.""")
