import sys
pid=sys.argv[1]
prop=open('/tmp/prop-%s.txt'%pid).read()
d='/tmp/wt2-%s'%pid
print(f"""You are working in a scratch git worktree of the repository axelarnetwork/axelar-cgp-soroban at {d} (Soroban / Stellar smart contracts in Rust: Axelar gateway, gas service, operators, interchain token, interchain token service, upgrader, example). Work ONLY inside {d}. There is no network: always pass --offline to cargo (and you may set CARGO_NET_OFFLINE=true). The full test suite is `cd {d} && cargo test --workspace --no-fail-fast --offline` (first build takes a few minutes; use a generous timeout). Do not run `cargo test -p <crate>` alone: because of feature unification single-crate builds may fail; always build/test with --workspace (you can add `--test <name>` or a test-name filter after `--`).

This property must hold for correct code:

{prop}

Your task: design TWO DIFFERENT realistic code changes, A and B, to the non-test source (files under {d}/contracts/*/src or {d}/packages/*/src). Each one, applied on its own to the unchanged code, must BREAK this property while (a) the workspace still compiles and (b) the entire existing test suite still passes, unedited. A and B must differ in kind: different code sites and different mechanisms (for instance one about an arithmetic/boundary/extreme-value slip and one about ordering of operations, state left behind on an error path, aliasing of two arguments or roles, a cache or helper that goes stale, interplay of two entry points or of two contracts). Each should look like something a maintainer could plausibly introduce and should need something specific to manifest: a particular multi-step sequence of operations, an unusual or boundary input, a particular ledger time/sequence, a particular configuration value, or the interplay of two call sites. Prefer subtle over blunt: do NOT pick a change that ordinary happy-path use would expose at once, do not merely delete an obviously tested check, and avoid the single most obvious idea for this property. Do not modify, add to or delete any existing test or testdata.

Deliverables, written under {d}/seeded/A/ and {d}/seeded/B/ (create the directories); for each of A and B:
1. patch.diff: `git diff` of the source change alone against the unchanged HEAD (not including the demo test), so that `git apply patch.diff` on a clean worktree reproduces it.
2. demo.rs: a self-contained Rust integration test that FAILS with the change applied and PASSES on the unchanged code; it will be installed as <crate dir>/tests/seeded_demo.rs. Use only crates that are already dev-dependencies of that crate.
3. CRATE: a one-line text file with the crate directory the demo belongs to, relative to the worktree root (e.g. contracts/axelar-gateway).
4. NOTES.md: how the property is broken, what exactly is needed for the break to manifest, and the exact commands you ran with their outcomes, covering all three facts: (i) the full existing suite passes with the change, (ii) the demo fails with the change, (iii) the demo passes without the change.
When you are done leave the worktree CLEAN: no source change applied and no demo test installed (`git checkout -- .` and remove any seeded_demo.rs); only the seeded/ directory remains. Do not commit. Do not read anything outside {d} other than the cargo registry/toolchain (in particular do not look at /verif or /repo). Finish with a short summary of both changes and the verification results.""")
