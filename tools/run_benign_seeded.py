#!/usr/bin/env python3
"""False-alarm self-test over the property-preserving changes written by sub-agents (benign_seeded/*/patch.diff):
apply each, run every check (quick tier), undo. None may report a violation or become inconclusive, except where
meta.json names checks that the change really breaks ("breaks": [...], judged by hand, reasons in meta.json)."""
import json, os, subprocess, sys
ROOT = os.path.dirname(os.path.dirname(os.path.abspath(__file__)))
REPO = os.path.join(os.path.dirname(ROOT), "repo") if os.path.isdir(os.path.join(os.path.dirname(ROOT), "repo", "contracts")) else "/repo"
checks = [c["property_id"] for c in json.load(open(os.path.join(ROOT, "MANIFEST.json")))["checks"]]
args = [a for a in sys.argv[1:]]
if "--checks" in args:  # restrict the checks run per change (partial re-runs after one check changed)
    i = args.index("--checks"); checks = args[i + 1].split(","); del args[i:i + 2]
only = args[0].split(",") if args else None
D = os.path.join(ROOT, "benign_seeded")
def clean():
    subprocess.run(["git", "-C", REPO, "checkout", "--", "."], check=True)
    subprocess.run(["git", "-C", REPO, "clean", "-fdq", "contracts", "packages"], check=True)  # files a patch added
assert subprocess.run(["git", "-C", REPO, "status", "--porcelain", "--untracked-files=no"], stdout=subprocess.PIPE, text=True).stdout.strip() == "", "repo not clean"
res = []
try:
    for name in sorted(os.listdir(D)):
        p = os.path.join(D, name, "patch.diff")
        if not os.path.exists(p) or (only and not any(name.startswith(o) for o in only)):
            continue
        meta = json.load(open(os.path.join(D, name, "meta.json")))
        if subprocess.run(["git", "-C", REPO, "apply", p]).returncode != 0:
            print("BENIGN %s: patch does not apply" % name); continue
        fired = {}
        for c in checks:
            r = subprocess.run([os.path.join(ROOT, "check"), c, "--tier", "quick"], cwd=ROOT, stdout=subprocess.PIPE, stderr=subprocess.STDOUT, text=True)
            if r.returncode != 0:
                fired[c] = {"rc": r.returncode, "lines": [l[:260] for l in r.stdout.splitlines() if l.startswith(("VIOLATION", "INCONCLUSIVE"))][:3]}
        clean()
        unexpected = sorted(set(fired) - set(meta.get("breaks", [])))
        print("BENIGN %-60s %s %s" % (name, "SILENT" if not fired else ("EXPECTED" if not unexpected else "ALARM"), json.dumps(fired) if fired else "")); sys.stdout.flush()
        res.append({"id": name, "fired": fired, "unexpected": unexpected})
finally:
    clean()
rp = os.path.join(D, "last_results.json" if "--checks" not in sys.argv else "last_results_partial.json")
if only and os.path.exists(rp):
    prev = {r["id"]: r for r in json.load(open(rp))}
    prev.update({r["id"]: r for r in res})
    res = [prev[k] for k in sorted(prev)]
json.dump(res, open(rp, "w"), indent=1)
bad = [r["id"] for r in res if r["unexpected"]]
print("%d changes, %d with unexpected alarms %s" % (len(res), len(bad), bad))
sys.exit(1 if bad else 0)
