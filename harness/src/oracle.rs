//! Independent oracles: Keccak-256 (tiny-keccak), ScVal/XDR construction by hand,
//! a hand-written Solidity ABI head/tail encoder, Ed25519 signing with ed25519-dalek.
//! Nothing in here calls into /repo code.

use ed25519_dalek::{Signer, SigningKey};
use soroban_sdk::xdr::{
    self, Hash, Int128Parts, Limits, ScAddress, ScBytes, ScMap, ScMapEntry, ScString, ScSymbol,
    ScVal, ScVec, UInt128Parts, WriteXdr,
};
use tiny_keccak::{Hasher, Keccak};

pub fn keccak(data: &[u8]) -> [u8; 32] {
    let mut k = Keccak::v256();
    k.update(data);
    let mut out = [0u8; 32];
    k.finalize(&mut out);
    out
}

// ---------------------------------------------------------------- ScVal builders

pub fn sv_sym(s: &str) -> ScVal {
    ScVal::Symbol(ScSymbol(s.try_into().expect("symbol")))
}
pub fn sv_str(s: &[u8]) -> ScVal {
    ScVal::String(ScString(s.to_vec().try_into().expect("string")))
}
pub fn sv_bytes(b: &[u8]) -> ScVal {
    ScVal::Bytes(ScBytes(b.to_vec().try_into().expect("bytes")))
}
pub fn sv_u32(x: u32) -> ScVal {
    ScVal::U32(x)
}
pub fn sv_u64(x: u64) -> ScVal {
    ScVal::U64(x)
}
pub fn sv_bool(x: bool) -> ScVal {
    ScVal::Bool(x)
}
pub fn sv_u128(x: u128) -> ScVal {
    ScVal::U128(UInt128Parts {
        hi: (x >> 64) as u64,
        lo: x as u64,
    })
}
pub fn sv_i128(x: i128) -> ScVal {
    ScVal::I128(Int128Parts {
        hi: (x >> 64) as i64,
        lo: x as u64,
    })
}
pub fn sv_vec(items: Vec<ScVal>) -> ScVal {
    ScVal::Vec(Some(ScVec(items.try_into().expect("vec"))))
}
/// Struct-like map: keys are symbols; sorted here by key bytes (as the SDK emits them).
pub fn sv_struct(mut fields: Vec<(&str, ScVal)>) -> ScVal {
    fields.sort_by(|a, b| a.0.as_bytes().cmp(b.0.as_bytes()));
    let entries: Vec<ScMapEntry> = fields
        .into_iter()
        .map(|(k, v)| ScMapEntry {
            key: sv_sym(k),
            val: v,
        })
        .collect();
    ScVal::Map(Some(ScMap(entries.try_into().expect("map"))))
}
pub fn sv_contract_addr(id: &[u8; 32]) -> ScVal {
    ScVal::Address(ScAddress::Contract(Hash(*id)))
}
pub fn sv_addr(a: &ScAddress) -> ScVal {
    ScVal::Address(a.clone())
}
pub fn sv_void() -> ScVal {
    ScVal::Void
}
pub fn sv_enum(variant: &str, payload: Vec<ScVal>) -> ScVal {
    let mut v = vec![sv_sym(variant)];
    v.extend(payload);
    sv_vec(v)
}

pub fn xdr_of(v: &ScVal) -> Vec<u8> {
    v.to_xdr(Limits::none()).expect("xdr")
}

pub fn scaddr_xdr(a: &ScAddress) -> Vec<u8> {
    xdr_of(&ScVal::Address(a.clone()))
}

// ---------------------------------------------------------------- gateway value model

#[derive(Clone, Debug, PartialEq, Eq)]
pub struct MSigner {
    pub key: [u8; 32],
    pub weight: u128,
}

#[derive(Clone, Debug, PartialEq, Eq)]
pub struct MSigners {
    pub signers: Vec<MSigner>,
    pub threshold: u128,
    pub nonce: [u8; 32],
}

impl MSigners {
    pub fn to_scval(&self) -> ScVal {
        sv_struct(vec![
            (
                "signers",
                sv_vec(
                    self.signers
                        .iter()
                        .map(|s| {
                            sv_struct(vec![
                                ("signer", sv_bytes(&s.key)),
                                ("weight", sv_u128(s.weight)),
                            ])
                        })
                        .collect(),
                ),
            ),
            ("threshold", sv_u128(self.threshold)),
            ("nonce", sv_bytes(&self.nonce)),
        ])
    }
    pub fn hash(&self) -> [u8; 32] {
        keccak(&xdr_of(&self.to_scval()))
    }
    pub fn rotation_data_hash(&self) -> [u8; 32] {
        keccak(&xdr_of(&sv_vec(vec![
            sv_enum("RotateSigners", vec![]),
            self.to_scval(),
        ])))
    }
    pub fn total_weight(&self) -> Option<u128> {
        let mut t = 0u128;
        for s in &self.signers {
            t = t.checked_add(s.weight)?;
        }
        Some(t)
    }
}

#[derive(Clone, Debug, PartialEq, Eq, Hash, PartialOrd, Ord)]
pub struct MMessage {
    pub source_chain: Vec<u8>,
    pub message_id: Vec<u8>,
    pub source_address: Vec<u8>,
    pub contract: ScAddress,
    pub payload_hash: [u8; 32],
}

impl MMessage {
    pub fn to_scval(&self) -> ScVal {
        sv_struct(vec![
            ("source_chain", sv_str(&self.source_chain)),
            ("message_id", sv_str(&self.message_id)),
            ("source_address", sv_str(&self.source_address)),
            ("contract_address", sv_addr(&self.contract)),
            ("payload_hash", sv_bytes(&self.payload_hash)),
        ])
    }
}

pub fn approve_data_hash(msgs: &[MMessage]) -> [u8; 32] {
    keccak(&xdr_of(&sv_vec(vec![
        sv_enum("ApproveMessages", vec![]),
        sv_vec(msgs.iter().map(|m| m.to_scval()).collect()),
    ])))
}

/// Digest the signers sign: keccak(domain || signers_hash || data_hash).
pub fn proof_digest(domain: &[u8; 32], signers_hash: &[u8; 32], data_hash: &[u8; 32]) -> [u8; 32] {
    let mut m = Vec::with_capacity(96);
    m.extend_from_slice(domain);
    m.extend_from_slice(signers_hash);
    m.extend_from_slice(data_hash);
    keccak(&m)
}

// ---------------------------------------------------------------- ed25519

#[derive(Clone)]
pub struct KeyPair {
    pub sk: SigningKey,
    pub pk: [u8; 32],
}

impl KeyPair {
    pub fn from_seed(seed: [u8; 32]) -> Self {
        let sk = SigningKey::from_bytes(&seed);
        let pk = sk.verifying_key().to_bytes();
        KeyPair { sk, pk }
    }
    pub fn sign(&self, msg: &[u8]) -> [u8; 64] {
        self.sk.sign(msg).to_bytes()
    }
}

// ---------------------------------------------------------------- Solidity ABI (hand-written)

pub enum AbiTok {
    Word([u8; 32]),
    Dyn(Vec<u8>),
}

pub fn word_u(x: u128) -> [u8; 32] {
    let mut w = [0u8; 32];
    w[16..].copy_from_slice(&x.to_be_bytes());
    w
}

fn pad32(n: usize) -> usize {
    (n + 31) / 32 * 32
}

/// Encode a tuple of parameters: head (static words / offsets), then tails in order.
pub fn abi_params(toks: &[AbiTok]) -> Vec<u8> {
    let head_len = toks.len() * 32;
    let mut head = Vec::with_capacity(head_len);
    let mut tail: Vec<u8> = Vec::new();
    for t in toks {
        match t {
            AbiTok::Word(w) => head.extend_from_slice(w),
            AbiTok::Dyn(d) => {
                head.extend_from_slice(&word_u((head_len + tail.len()) as u128));
                tail.extend_from_slice(&word_u(d.len() as u128));
                tail.extend_from_slice(d);
                tail.resize(tail.len() + (pad32(d.len()) - d.len()), 0);
            }
        }
    }
    head.extend_from_slice(&tail);
    head
}

#[derive(Clone, Debug, PartialEq, Eq)]
pub enum MItsMsg {
    Transfer {
        token_id: [u8; 32],
        source: Vec<u8>,
        dest: Vec<u8>,
        amount: u128, // raw low 128 bits (high 128 bits = amount_hi)
        amount_hi: u128,
        data: Vec<u8>,
    },
    Deploy {
        token_id: [u8; 32],
        name: Vec<u8>,
        symbol: Vec<u8>,
        decimals: u8,
        minter: Vec<u8>,
    },
}

impl MItsMsg {
    pub fn encode(&self) -> Vec<u8> {
        match self {
            MItsMsg::Transfer {
                token_id,
                source,
                dest,
                amount,
                amount_hi,
                data,
            } => {
                let mut amt = [0u8; 32];
                amt[..16].copy_from_slice(&amount_hi.to_be_bytes());
                amt[16..].copy_from_slice(&amount.to_be_bytes());
                abi_params(&[
                    AbiTok::Word(word_u(0)),
                    AbiTok::Word(*token_id),
                    AbiTok::Dyn(source.clone()),
                    AbiTok::Dyn(dest.clone()),
                    AbiTok::Word(amt),
                    AbiTok::Dyn(data.clone()),
                ])
            }
            MItsMsg::Deploy {
                token_id,
                name,
                symbol,
                decimals,
                minter,
            } => abi_params(&[
                AbiTok::Word(word_u(1)),
                AbiTok::Word(*token_id),
                AbiTok::Dyn(name.clone()),
                AbiTok::Dyn(symbol.clone()),
                AbiTok::Word(word_u(*decimals as u128)),
                AbiTok::Dyn(minter.clone()),
            ]),
        }
    }
}

#[derive(Clone, Debug, PartialEq, Eq)]
pub struct MHubMsg {
    pub to_hub: bool, // true: SendToHub (3), false: ReceiveFromHub (4)
    pub chain: Vec<u8>,
    pub inner: MItsMsg,
}

impl MHubMsg {
    pub fn encode(&self) -> Vec<u8> {
        hub_wrap(if self.to_hub { 3 } else { 4 }, &self.chain, &self.inner.encode())
    }
}

pub fn hub_wrap(ty: u128, chain: &[u8], inner: &[u8]) -> Vec<u8> {
    abi_params(&[
        AbiTok::Word(word_u(ty)),
        AbiTok::Dyn(chain.to_vec()),
        AbiTok::Dyn(inner.to_vec()),
    ])
}

// ---------------------------------------------------------------- ITS token-id derivation

pub const ZERO_ACCOUNT: ScAddress = ScAddress::Account(xdr::AccountId(
    xdr::PublicKey::PublicKeyTypeEd25519(xdr::Uint256([0u8; 32])),
));

pub fn its_chain_name_hash(chain_name: &[u8]) -> [u8; 32] {
    keccak(&xdr_of(&sv_str(chain_name)))
}

pub fn its_deploy_salt(chain_name: &[u8], deployer: &ScAddress, salt: &[u8; 32]) -> [u8; 32] {
    keccak(&xdr_of(&sv_vec(vec![
        sv_str(b"interchain-token-salt"),
        sv_bytes(&its_chain_name_hash(chain_name)),
        sv_addr(deployer),
        sv_bytes(salt),
    ])))
}

pub fn its_canonical_salt(chain_name: &[u8], token: &ScAddress) -> [u8; 32] {
    keccak(&xdr_of(&sv_vec(vec![
        sv_str(b"canonical-token-salt"),
        sv_bytes(&its_chain_name_hash(chain_name)),
        sv_addr(token),
    ])))
}

pub fn its_token_id(sender: &ScAddress, salt: &[u8; 32]) -> [u8; 32] {
    keccak(&xdr_of(&sv_vec(vec![
        sv_str(b"its-interchain-token-id"),
        sv_addr(sender),
        sv_bytes(salt),
    ])))
}

pub fn hex(b: &[u8]) -> String {
    ::hex::encode(b)
}
