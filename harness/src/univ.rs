//! Universe: one Env with checkpoint/restore, ledger-state comparison, exact-authorisation
//! call engine (record, then replay with a chosen authoriser assignment) and event capture.

use soroban_env_host::storage::StorageMap;
use soroban_sdk::testutils::{Address as _, Ledger as _};
use soroban_sdk::xdr::{
    ContractDataDurability, ContractEventBody, ContractEventType, LedgerEntry, LedgerKey,
    ScAddress, ScVal, SorobanAddressCredentials, SorobanAuthorizationEntry,
    SorobanAuthorizedInvocation, SorobanCredentials,
};
use soroban_sdk::testutils::EnvTestConfig;
use soroban_sdk::{Address, Env, InvokeError, TryFromVal, TryIntoVal, Val};
use std::fmt::Debug;
use std::rc::Rc;

use crate::probes::acct::Acct;

#[derive(Clone, Debug, PartialEq, Eq)]
pub struct Ev {
    pub contract: ScAddress,
    pub topics: Vec<ScVal>,
    pub data: ScVal,
}

impl Ev {
    /// First topic as a symbol string, if it is one.
    pub fn kind(&self) -> String {
        match self.topics.first() {
            Some(ScVal::Symbol(s)) => s.to_utf8_string_lossy(),
            _ => String::new(),
        }
    }
}

/// Argument for `U::advance`: every temporary entry alive now expires.
pub const EON: u32 = u32::MAX;

pub type StateSnap = Vec<(Rc<LedgerKey>, Rc<LedgerEntry>, Option<u32>)>;

pub struct Ckpt {
    map: StorageMap,
    ledger: soroban_sdk::testutils::LedgerInfo,
    advanced: u32,
}

/// Who authorises a call.
#[derive(Clone, Debug)]
pub enum Auth {
    /// No authorisation entries at all.
    Nobody,
    /// Exactly what the code asked for, signed by the addresses it asked.
    AsRecorded,
    /// Only the trees the code asked from these addresses are provided (signed by themselves).
    Only(Vec<Address>),
    /// Every recorded tree is provided, but signed by `by` instead of the address asked.
    AllBy(Address),
    /// Trees recorded for address `.0` are signed by `.1`; all other trees as recorded.
    Subst(Address, Address),
    /// Trees recorded for address `.0` are withheld; all others as recorded.
    Without(Address),
    /// Only the recorded trees at these positions (in recording order), signed as asked.
    Pick(Vec<usize>),
    /// As `AsRecorded`, and the same parties also consent to whatever sub-calls that fail (and are
    /// caught by their caller) ask of them. Only for parties that can really sign. With a list, only
    /// the listed parties consent: if the recording shows anybody else being asked, this is `Only`.
    Blanket(Vec<Address>),
    /// Use a previously recorded forest (e.g. recorded for other arguments) verbatim.
    Forest(Vec<(ScAddress, SorobanAuthorizedInvocation)>),
}

pub struct CallOut<T> {
    pub res: Result<T, String>,
    /// Contract events of the real (enforced) run; empty when it failed.
    pub events: Vec<Ev>,
    /// Authorisation forest the code asked for in the recording run.
    pub recorded: Vec<(ScAddress, SorobanAuthorizedInvocation)>,
    /// Result class of the recording run (all authorisations assumed).
    pub recorded_ok: bool,
    /// Set when a failed call left a trace: description of the differing ledger keys/events.
    pub leak: Option<String>,
}

impl<T> CallOut<T> {
    pub fn ok(&self) -> bool {
        self.res.is_ok()
    }
}

pub struct U {
    pub env: Env,
    ev_cursor: usize,
    nonce: i64,
    pub calls: u64,
    /// Set by monitors all of whose principals can really sign: one call in three, `AsRecorded` and
    /// `Only` are run as `Blanket` (the consenting parties also sign for what failing sub-calls ask).
    pub blanket_ok: bool,
    pub primed: Vec<ScAddress>,
    pub advanced: u32,
}

pub fn flat<T, CE: Debug, E: Debug>(
    r: Result<Result<T, CE>, Result<E, InvokeError>>,
) -> Result<T, String> {
    match r {
        Ok(Ok(v)) => Ok(v),
        Ok(Err(e)) => Err(format!("conversion:{:?}", e)),
        Err(Ok(e)) => Err(format!("contract:{:?}", e)),
        Err(Err(e)) => Err(format!("invoke:{:?}", e)),
    }
}

pub fn sc_addr(a: &Address) -> ScAddress {
    ScAddress::try_from(a).expect("scaddress")
}

pub fn addr_of(env: &Env, a: &ScAddress) -> Address {
    ScVal::Address(a.clone()).try_into_val(env).expect("address")
}

pub fn to_scval<T>(env: &Env, v: &T) -> ScVal
where
    Val: TryFromVal<Env, T>,
{
    let val: Val = Val::try_from_val(env, v).ok().expect("to val");
    ScVal::try_from_val(env, &val).expect("to scval")
}

thread_local! {
    /// Ledger sequence and timestamp at which `U::new()` starts (set per universe by the report).
    pub static GENESIS: std::cell::Cell<(u32, u64)> = std::cell::Cell::new((100, 1_000_000));
}

/// Choose where the next universes' ledgers start: mostly at an ordinary point, sometimes at the
/// very first ledger (sequence 0, timestamp 0) or right after it.
pub fn set_genesis_for(universe: u64) {
    let h = universe.wrapping_mul(0x9E37_79B9_7F4A_7C15) >> 33;
    let g = match h % 8 {
        0 => (0, 0),
        1 => (1, 1),
        _ => (100, 1_000_000),
    };
    GENESIS.with(|c| c.set(g));
}

impl U {
    pub fn new() -> U {
        let (seq, t) = GENESIS.with(|c| c.get());
        Self::with_ledger(seq, t)
    }

    pub fn with_ledger(seq: u32, timestamp: u64) -> U {
        let env = Env::new_with_config(EnvTestConfig {
            capture_snapshot_at_drop: false,
        });
        env.budget().reset_unlimited();
        env.host()
            .set_diagnostic_level(soroban_env_host::DiagnosticLevel::None)
            .unwrap();
        env.ledger().set(soroban_sdk::testutils::LedgerInfo {
            protocol_version: 22,
            sequence_number: seq,
            timestamp,
            network_id: [0; 32],
            base_reserve: 0,
            min_persistent_entry_ttl: 4_000_000,
            min_temp_entry_ttl: 16,
            max_entry_ttl: 6_312_000,
        });
        U {
            env,
            ev_cursor: 0,
            nonce: 1,
            calls: 0,
            blanket_ok: false,
            primed: Vec::new(),
            advanced: 0,
        }
    }

    // ------------------------------------------------------------ principals

    /// A fresh principal: a contract address carrying the harness account contract
    /// (its `__check_auth` accepts), so that exact authorisation entries can be replayed.
    pub fn principal(&self) -> Address {
        let a = Address::generate(&self.env);
        self.env.register_at(&a, Acct, ());
        a
    }

    // ------------------------------------------------------------ ledger clock

    pub fn seq(&self) -> u32 {
        self.env.ledger().sequence()
    }
    pub fn time(&self) -> u64 {
        self.env.ledger().timestamp()
    }
    pub fn set_time(&self, t: u64) {
        self.env.ledger().set_timestamp(t);
    }
    pub fn set_seq(&self, s: u32) {
        self.env.ledger().set_sequence_number(s);
    }

    /// Let `d` ledgers pass (5 s each). Whenever the harness's own clock would come close to the
    /// minimum persistent TTL it configured (4 000 000 ledgers), every persistent entry has its
    /// lifetime extended first - on the network anybody may extend or restore a persistent entry, and
    /// contracts cannot observe lifetimes - so nothing stored persistently is ever archived by the
    /// harness's clock, while anything kept in temporary storage disappears when its lifetime ends.
    /// `d == EON` lets every temporary entry that exists now reach the end of its lifetime.
    pub fn advance(&mut self, d: u32) -> bool {
        if d == EON {
            self.eon();
            return true;
        }
        if self.advanced as u64 + d as u64 > 3_400_000 {
            self.pay_rent(self.seq() + d);
        }
        self.advanced += d;
        self.set_seq(self.seq() + d);
        self.set_time(self.time().saturating_add(5 * d as u64));
        true
    }

    /// Extend every persistent entry (data, instances, code) to live at least 4 000 000 ledgers
    /// beyond `at`, and drop temporary entries whose lifetime ends before `at`.
    fn pay_rent(&mut self, at: u32) {
        let map = self.raw_map();
        let budget = self.env.host().budget_cloned();
        let mut out = Vec::new();
        for (k, v) in map.iter(&budget).unwrap() {
            let temp = matches!(k.as_ref(), LedgerKey::ContractData(cd) if cd.durability == ContractDataDurability::Temporary);
            match v {
                Some((e, Some(l))) if temp => {
                    if *l >= at {
                        out.push((k.clone(), Some((e.clone(), Some(*l)))));
                    }
                }
                Some((e, Some(l))) => out.push((k.clone(), Some((e.clone(), Some((*l).max(at + 4_000_000)))))),
                other => out.push((k.clone(), other.clone())),
            }
        }
        let m = StorageMap::from_map(out, &budget).unwrap();
        self.env
            .host()
            .with_mut_storage(move |s| {
                s.map = m;
                Ok(())
            })
            .unwrap();
        self.advanced = 0;
    }

    /// A very long time passes: the ledger moves just beyond the end of the lifetime of every
    /// temporary entry that exists now (whatever lifetime the code gave it, up to the network
    /// maximum), while all persistent entries are kept alive.
    pub fn eon(&mut self) -> u32 {
        let map = self.raw_map();
        let budget = self.env.host().budget_cloned();
        let mut t_max = self.seq();
        for (k, v) in map.iter(&budget).unwrap() {
            if let (LedgerKey::ContractData(cd), Some((_, Some(l)))) = (k.as_ref(), v) {
                if cd.durability == ContractDataDurability::Temporary && !matches!(cd.key, ScVal::LedgerKeyNonce(_)) {
                    t_max = t_max.max(*l);
                }
            }
        }
        let to = t_max + 1;
        let d = to - self.seq();
        self.pay_rent(to);
        self.set_seq(to);
        self.set_time(self.time().saturating_add(5 * d as u64));
        d
    }

    /// Move the ledger clock forward to timestamp `t`, letting the matching number of ledgers
    /// (5 s each) close as far as the harness's advancement budget allows.
    pub fn advance_to_time(&mut self, t: u64) {
        self.advance_to_time_paced(t, 5)
    }

    /// As `advance_to_time`, with ledgers closing every `pace` seconds (the network promises no
    /// particular pace, only that close times increase).
    pub fn advance_to_time_paced(&mut self, t: u64, pace: u64) {
        let now = self.time();
        if t > now {
            let d = ((t - now) / pace.max(1)).min(3_300_000) as u32;
            if d > 0 {
                if self.advanced as u64 + d as u64 > 3_400_000 {
                    self.pay_rent(self.seq() + d);
                }
                self.advanced += d;
                self.set_seq(self.seq() + d);
            }
            self.set_time(t);
        }
    }

    // ------------------------------------------------------------ checkpoint / restore

    fn raw_map(&self) -> StorageMap {
        self.env
            .host()
            .with_mut_storage(|s| Ok(s.map.clone()))
            .unwrap()
    }

    pub fn checkpoint(&self) -> Ckpt {
        Ckpt {
            map: self.raw_map(),
            ledger: self.env.ledger().get(),
            advanced: self.advanced,
        }
    }

    pub fn restore(&mut self, ck: &Ckpt) {
        let m = ck.map.clone();
        self.env
            .host()
            .with_mut_storage(move |s| {
                s.map = m;
                Ok(())
            })
            .unwrap();
        self.env.ledger().set(ck.ledger.clone());
        self.advanced = ck.advanced;
        self.skip_events();
    }

    /// Run `f` and roll the ledger back afterwards (probe without disturbing the history).
    pub fn probe<R>(&mut self, f: impl FnOnce(&mut U) -> R) -> R {
        let ck = self.checkpoint();
        let r = f(self);
        self.restore(&ck);
        r
    }

    /// Run `f` and keep its effects (counterpart of `probe`, for symmetry at call sites).
    pub fn call_keep<R>(&mut self, f: impl FnOnce(&mut U) -> R) -> R {
        f(self)
    }

    /// All live ledger entries except authorisation nonces (harness artefacts).
    pub fn snap(&self) -> StateSnap {
        let map = self.raw_map();
        let budget = self.env.host().budget_cloned();
        let mut out = Vec::new();
        for (k, v) in map.iter(&budget).unwrap() {
            if let Some((e, ttl)) = v {
                if let LedgerKey::ContractData(cd) = k.as_ref() {
                    if matches!(cd.key, ScVal::LedgerKeyNonce(_))
                        && cd.durability == ContractDataDurability::Temporary
                    {
                        continue;
                    }
                }
                out.push((k.clone(), e.clone(), *ttl));
            }
        }
        out
    }

    pub fn snap_diff(a: &StateSnap, b: &StateSnap) -> Option<String> {
        if a.len() == b.len()
            && a.iter().zip(b.iter()).all(|(x, y)| {
                (Rc::ptr_eq(&x.0, &y.0) || x.0 == y.0)
                    && (Rc::ptr_eq(&x.1, &y.1) || x.1 == y.1)
                    && x.2 == y.2
            })
        {
            return None;
        }
        let mut diffs = Vec::new();
        let find = |s: &StateSnap, k: &LedgerKey| s.iter().position(|e| e.0.as_ref() == k);
        for x in a {
            match find(b, &x.0) {
                None => diffs.push(format!("removed {}", short_key(&x.0))),
                Some(i) => {
                    if b[i].1 != x.1 {
                        diffs.push(format!("changed {}", short_key(&x.0)));
                    } else if b[i].2 != x.2 {
                        diffs.push(format!("ttl {}", short_key(&x.0)));
                    }
                }
            }
        }
        for y in b {
            if find(a, &y.0).is_none() {
                diffs.push(format!("added {}", short_key(&y.0)));
            }
        }
        Some(diffs.join("; "))
    }

    /// Every live ledger entry (except authorisation nonces) as base64 XDR: (key, entry, live-until).
    pub fn dump_entries(&self) -> Vec<(String, String, Option<u32>)> {
        use soroban_sdk::xdr::{Limits, WriteXdr};
        self.snap()
            .iter()
            .map(|(k, e, l)| (k.to_xdr_base64(Limits::none()).unwrap(), e.to_xdr_base64(Limits::none()).unwrap(), *l))
            .collect()
    }

    /// Replace the whole ledger by the given entries (the contracts registered in this Env keep
    /// running their code; what they find in storage is what the entries say) and set the clock.
    pub fn load_entries(&mut self, entries: &[(String, String, Option<u32>)], seq: u32, time: u64) -> Result<(), String> {
        use soroban_sdk::xdr::{Limits, ReadXdr};
        let budget = self.env.host().budget_cloned();
        let mut v: Vec<(Rc<LedgerKey>, Option<(Rc<LedgerEntry>, Option<u32>)>)> = Vec::new();
        for (k, e, l) in entries {
            let k = LedgerKey::from_xdr_base64(k, Limits::none()).map_err(|e| format!("{:?}", e))?;
            let e = LedgerEntry::from_xdr_base64(e, Limits::none()).map_err(|e| format!("{:?}", e))?;
            v.push((Rc::new(k), Some((Rc::new(e), *l))));
        }
        v.sort_by(|a, b| a.0.cmp(&b.0));
        let m = StorageMap::from_map(v, &budget).map_err(|e| format!("{:?}", e))?;
        self.env
            .host()
            .with_mut_storage(move |s| {
                s.map = m;
                Ok(())
            })
            .map_err(|e| format!("{:?}", e))?;
        self.set_seq(seq);
        self.set_time(time);
        self.advanced = 0;
        self.skip_events();
        Ok(())
    }

    // ------------------------------------------------------------ events

    fn host_events(&self) -> Vec<soroban_env_host::events::HostEvent> {
        self.env.host().get_events().unwrap().0
    }

    pub fn skip_events(&mut self) {
        self.ev_cursor = self.host_events().len();
    }

    /// Contract events appended since the last call of take/skip, from successful frames.
    pub fn take_events(&mut self) -> Vec<Ev> {
        let all = self.host_events();
        let mut out = Vec::new();
        for he in all.iter().skip(self.ev_cursor) {
            if he.failed_call {
                continue;
            }
            if he.event.type_ != ContractEventType::Contract {
                continue;
            }
            let ContractEventBody::V0(b) = &he.event.body;
            if let Some(cid) = &he.event.contract_id {
                out.push(Ev {
                    contract: ScAddress::Contract(cid.clone()),
                    topics: b.topics.to_vec(),
                    data: b.data.clone(),
                });
            }
        }
        self.ev_cursor = all.len();
        out
    }

    // ------------------------------------------------------------ authorisation engine

    fn entry(
        &mut self,
        signer: &ScAddress,
        inv: &SorobanAuthorizedInvocation,
    ) -> SorobanAuthorizationEntry {
        self.nonce += 1;
        SorobanAuthorizationEntry {
            credentials: SorobanCredentials::Address(SorobanAddressCredentials {
                address: signer.clone(),
                nonce: self.nonce,
                signature_expiration_ledger: self.seq() + 1000,
                signature: ScVal::Void,
            }),
            root_invocation: inv.clone(),
        }
    }

    fn entries_for(
        &mut self,
        auth: &Auth,
        recorded: &[(ScAddress, SorobanAuthorizedInvocation)],
    ) -> Vec<SorobanAuthorizationEntry> {
        let mut out = Vec::new();
        match auth {
            Auth::Nobody => {}
            Auth::AsRecorded => {
                for (a, inv) in recorded {
                    out.push(self.entry(a, inv));
                }
            }
            Auth::Blanket(list) => {
                let allowed: Vec<ScAddress> = list.iter().map(sc_addr).collect();
                for (a, inv) in recorded {
                    if allowed.is_empty() || allowed.contains(a) {
                        out.push(self.entry(a, inv));
                    }
                }
            }
            Auth::Only(list) => {
                let allowed: Vec<ScAddress> = list.iter().map(sc_addr).collect();
                for (a, inv) in recorded {
                    if allowed.contains(a) {
                        out.push(self.entry(a, inv));
                    }
                }
            }
            Auth::AllBy(by) => {
                let by = sc_addr(by);
                for (_, inv) in recorded {
                    out.push(self.entry(&by, inv));
                }
            }
            Auth::Subst(from, to) => {
                let from = sc_addr(from);
                let to = sc_addr(to);
                for (a, inv) in recorded {
                    if *a == from {
                        out.push(self.entry(&to, inv));
                    } else {
                        out.push(self.entry(a, inv));
                    }
                }
            }
            Auth::Without(x) => {
                let x = sc_addr(x);
                for (a, inv) in recorded {
                    if *a != x {
                        out.push(self.entry(a, inv));
                    }
                }
            }
            Auth::Pick(idx) => {
                for (i, (a, inv)) in recorded.iter().enumerate() {
                    if idx.contains(&i) {
                        out.push(self.entry(a, inv));
                    }
                }
            }
            Auth::Forest(f) => {
                for (a, inv) in f {
                    out.push(self.entry(a, inv));
                }
            }
        }
        out
    }

    /// Record which authorisations `f` asks for (all assumed granted), rolling its effects back.
    pub fn record<T>(
        &mut self,
        f: &dyn Fn(&Env) -> Result<T, String>,
    ) -> (bool, Vec<(ScAddress, SorobanAuthorizedInvocation)>) {
        let ck = self.checkpoint();
        self.env.host().switch_to_recording_auth(false).unwrap();
        let r = f(&self.env);
        let recorded = self
            .env
            .host()
            .get_authenticated_authorizations()
            .unwrap_or_default();
        self.restore(&ck);
        self.env.set_auths(&[]);
        (r.is_ok(), recorded)
    }

    /// The verdict-bearing call: `f` runs under exactly the authorisation entries selected by
    /// `auth`. A failed call is compared against the pre-state (ledger entries and events).
    pub fn call<T>(&mut self, auth: Auth, f: &dyn Fn(&Env) -> Result<T, String>) -> CallOut<T> {
        self.calls += 1;
        let auth = match auth {
            Auth::AsRecorded if self.blanket_ok && self.calls % 3 == 0 => Auth::Blanket(Vec::new()),
            Auth::Only(l) if self.blanket_ok && self.calls % 3 == 0 => Auth::Blanket(l),
            a => a,
        };
        let (recorded_ok, recorded) = match &auth {
            Auth::Nobody => (true, Vec::new()),
            _ => self.record(f),
        };
        let entries = self.entries_for(&auth, &recorded);
        let before = self.snap();
        self.skip_events();
        // Auth::Blanket takes "everybody asked signs" further: the same parties also consent
        // to whatever is asked of them inside sub-calls that fail and are caught by the caller. Such
        // requests leave no trace in the recorded forest (a failed frame is rolled back), yet a party
        // may well have signed for them; code that turns a failed sub-call into success is only
        // reachable this way. Nothing but the recorded parties' consent survives such a run: the
        // recording run already showed who is asked in the frames that are kept.
        let blanket = match &auth {
            Auth::Blanket(list) => {
                let allowed: Vec<ScAddress> = list.iter().map(sc_addr).collect();
                recorded_ok && (allowed.is_empty() || recorded.iter().all(|(a, _)| allowed.contains(a)))
            }
            _ => false,
        };
        if blanket {
            self.env.host().switch_to_recording_auth(false).unwrap();
        } else {
            self.env.set_auths(&entries);
        }
        let res = f(&self.env);
        self.env.set_auths(&[]);
        let mut events = self.take_events();
        let mut leak = None;
        if res.is_err() {
            let after = self.snap();
            if let Some(d) = Self::snap_diff(&before, &after) {
                leak = Some(format!("ledger: {}", d));
            } else if !events.is_empty() {
                leak = Some(format!(
                    "events: {}",
                    events.iter().map(|e| e.kind()).collect::<Vec<_>>().join(",")
                ));
            }
            events.clear();
        }
        CallOut {
            res,
            events,
            recorded,
            recorded_ok,
            leak,
        }
    }

    /// A legal administrative step in the middle of a history: the contract at `addr` is upgraded
    /// (to the same, natively running code) and migrated with unit data, everything authorised.
    /// Whatever the contract stores must read as before afterwards.
    pub fn upgrade_and_migrate(&mut self, addr: &Address) -> Result<(), String> {
        let a = addr.clone();
        let r = self.setup(move |env| {
            let mut v: soroban_sdk::Vec<Val> = soroban_sdk::Vec::new(env);
            v.push_back(native_hash(env).to_val());
            match env.try_invoke_contract::<Val, soroban_sdk::Error>(&a, &soroban_sdk::Symbol::new(env, "upgrade"), v) {
                Ok(Ok(_)) => {}
                other => return Err(format!("upgrade: {:?}", other)),
            }
            let mut v: soroban_sdk::Vec<Val> = soroban_sdk::Vec::new(env);
            v.push_back(Val::VOID.to_val());
            match env.try_invoke_contract::<Val, soroban_sdk::Error>(&a, &soroban_sdk::Symbol::new(env, "migrate"), v) {
                Ok(Ok(_)) => Ok(()),
                other => Err(format!("migrate: {:?}", other)),
            }
        });
        self.skip_events();
        r
    }

    /// First half of `upgrade_and_migrate`: the code is replaced (by the same, natively running
    /// code) and the migration window opens; the history may go on before `migrate_only`.
    pub fn upgrade_only(&mut self, addr: &Address) -> Result<(), String> {
        let a = addr.clone();
        let r = self.setup(move |env| {
            let mut v: soroban_sdk::Vec<Val> = soroban_sdk::Vec::new(env);
            v.push_back(native_hash(env).to_val());
            match env.try_invoke_contract::<Val, soroban_sdk::Error>(&a, &soroban_sdk::Symbol::new(env, "upgrade"), v) {
                Ok(Ok(_)) => Ok(()),
                other => Err(format!("upgrade: {:?}", other)),
            }
        });
        self.skip_events();
        r
    }

    /// Second half: the migration, with the first of `candidates` the contract accepts as its
    /// migration data (unit first).
    pub fn migrate_only(&mut self, addr: &Address, candidates: &[Val]) -> Result<usize, String> {
        let mut last = String::new();
        let mut all: Vec<Val> = vec![Val::VOID.to_val()];
        all.extend_from_slice(candidates);
        for (i, c) in all.iter().enumerate() {
            let (a, c) = (addr.clone(), *c);
            let r = self.setup(move |env| {
                let mut v: soroban_sdk::Vec<Val> = soroban_sdk::Vec::new(env);
                v.push_back(c);
                match env.try_invoke_contract::<Val, soroban_sdk::Error>(&a, &soroban_sdk::Symbol::new(env, "migrate"), v) {
                    Ok(Ok(_)) => Ok(()),
                    other => Err(format!("migrate: {:?}", other)),
                }
            });
            self.skip_events();
            match r {
                Ok(()) => return Ok(i),
                Err(e) => last = e,
            }
        }
        Err(last)
    }

    /// Harness set-up traffic (not verdict-bearing): everything is authorised.
    pub fn setup<T>(&mut self, f: impl FnOnce(&Env) -> T) -> T {
        self.env.mock_all_auths_allowing_non_root_auth();
        let r = f(&self.env);
        self.env.set_auths(&[]);
        self.skip_events();
        r
    }

    /// Read-only query (no authorisation), events ignored.
    pub fn query<T>(&mut self, f: impl FnOnce(&Env) -> T) -> T {
        self.env.set_auths(&[]);
        f(&self.env)
    }
}

pub fn short_key(k: &LedgerKey) -> String {
    match k {
        LedgerKey::ContractData(cd) => {
            let c = match &cd.contract {
                ScAddress::Contract(h) => hex::encode(&h.0[..4]),
                ScAddress::Account(_) => "acct".to_string(),
            };
            let mut s = format!("{:?}", cd.key);
            if s.len() > 160 {
                s.truncate(160);
            }
            format!("{}:{:?}:{}", c, cd.durability, s)
        }
        LedgerKey::ContractCode(cc) => format!("code:{}", hex::encode(&cc.hash.0[..4])),
        other => format!("{:?}", other.discriminant()),
    }
}

// ------------------------------------------------------------------ native deployment through a factory

use soroban_sdk::testutils::Register;
use soroban_sdk::{BytesN, ConstructorArgs, IntoVal, Vec as SVec};

/// Hash of the empty Wasm: the test host's marker for "natively registered contract".
pub fn native_hash(env: &Env) -> BytesN<32> {
    BytesN::from_array(
        env,
        &[
            0xe3, 0xb0, 0xc4, 0x42, 0x98, 0xfc, 0x1c, 0x14, 0x9a, 0xfb, 0xf4, 0xc8, 0x99, 0x6f, 0xb9,
            0x24, 0x27, 0xae, 0x41, 0xe4, 0x64, 0x9b, 0x93, 0x4c, 0xa4, 0x95, 0x99, 0x1b, 0x78, 0x52,
            0xb8, 0x55,
        ],
    )
}

impl U {
    /// Make `addr` dispatch to the native contract `c` once an instance is created there, without
    /// leaving any ledger entry behind: register it (running its constructor with arguments that
    /// are known to be valid) and then put the ledger back.
    /// Returns false when the contract's constructor refused the (valid) arguments: the test host
    /// panics in that case, which is caught here.
    pub fn prime<C: Register, A: ConstructorArgs>(&mut self, addr: &Address, c: C, valid_args: A) -> bool {
        let ck = self.checkpoint();
        self.primed.push(sc_addr(addr));
        self.env.mock_all_auths_allowing_non_root_auth();
        let env = self.env.clone();
        let a = addr.clone();
        let ok = std::panic::catch_unwind(std::panic::AssertUnwindSafe(move || {
            env.register_at(&a, c, valid_args);
        }))
        .is_ok();
        self.env.set_auths(&[]);
        self.restore(&ck);
        ok
    }

    /// Is there a contract instance at `addr`?
    pub fn has_instance(&self, addr: &Address) -> bool {
        let sc = sc_addr(addr);
        self.snap().iter().any(|(k, _, _)| match k.as_ref() {
            LedgerKey::ContractData(cd) => {
                cd.contract == sc && matches!(cd.key, ScVal::LedgerKeyContractInstance)
            }
            _ => false,
        })
    }
}

/// Like `flat` for clients whose error type has no Debug implementation.
pub fn flat_any<T, CE, E>(r: Result<Result<T, CE>, Result<E, InvokeError>>) -> Result<T, String> {
    match r {
        Ok(Ok(v)) => Ok(v),
        Ok(Err(_)) => Err("conversion".into()),
        Err(Ok(_)) => Err("contract-error".into()),
        Err(Err(e)) => Err(format!("invoke:{:?}", e)),
    }
}

/// The account address that shares its 32 identifying bytes with the contract address `a`: a
/// different address, for which nobody can sign in the harness.
pub fn twin_of(env: &Env, a: &Address) -> Address {
    use soroban_sdk::xdr::{AccountId, PublicKey, ScAddress, Uint256};
    match sc_addr(a) {
        ScAddress::Contract(h) => addr_of(env, &ScAddress::Account(AccountId(PublicKey::PublicKeyTypeEd25519(Uint256(h.0))))),
        other => addr_of(env, &other),
    }
}


/// Candidates for entry points the workloads do not know: function names that occur in the
/// contract's sources, in the shared derive macros or in the shared interfaces of the tree the
/// harness was built against, that are not in `known`, and that either do not occur anywhere in
/// the pinned tree (`pinned_fn_names.txt`, written by tools/gen_pinned_fn_names.py) or are names
/// a derive macro can attach to any contract. Helpers among them are harmless: calling a name
/// that is not exported just fails.
pub fn unknown_entry_points(contract_dir: &str, known: &[&str]) -> Vec<String> {
    // names a derive macro of the shared package can attach to any contract: known only where listed
    const MOVABLE: &[&str] = &["operator", "transfer_operatorship", "owner", "transfer_ownership", "version", "upgrade", "migrate"];
    // "<contract dir> <name>": in that contract's contract.rs on the pinned tree; "* <name>": in any other file
    let pinned: Vec<(&str, &str)> = include_str!("pinned_fn_names.txt").lines().filter_map(|l| l.split_once(' ')).collect();
    let own_contract_rs = format!("contracts/{}/src/contract.rs", contract_dir);
    let root = format!("{}/../../repo", env!("CARGO_MANIFEST_DIR"));
    let mut files: Vec<std::path::PathBuf> = Vec::new();
    for d in [format!("{}/contracts/{}/src", root, contract_dir), format!("{}/packages/axelar-soroban-std-derive/src", root), format!("{}/packages/axelar-soroban-std/src/interfaces", root)] {
        let mut stack = vec![std::path::PathBuf::from(d)];
        while let Some(dir) = stack.pop() {
            let Ok(rd) = std::fs::read_dir(&dir) else { continue };
            for e in rd.flatten() {
                let p = e.path();
                if p.is_dir() {
                    if !p.ends_with("testdata") && !p.ends_with("tests") {
                        stack.push(p);
                    }
                } else if p.extension().map(|x| x == "rs").unwrap_or(false) {
                    files.push(p);
                }
            }
        }
    }
    files.sort();
    let mut out: Vec<String> = Vec::new();
    for f in files {
        let Ok(text) = std::fs::read_to_string(&f) else { continue };
        let in_contract_rs = f.to_string_lossy().ends_with(&own_contract_rs);
        let mut rest = text.as_str();
        while let Some(i) = rest.find("fn ") {
            let after = &rest[i + 3..];
            let name: String = after.chars().take_while(|c| c.is_ascii_alphanumeric() || *c == '_').collect();
            let b = rest.as_bytes();
            let boundary_ok = i == 0 || !(b[i - 1].is_ascii_alphanumeric() || b[i - 1] == b'_');
            if boundary_ok
                && !name.is_empty()
                && after[name.len()..].starts_with('(')
                && !known.contains(&name.as_str())
                && if in_contract_rs {
                    // a name that is new in contract.rs is a candidate even if a helper elsewhere bears it
                    !pinned.contains(&(contract_dir, name.as_str()))
                } else {
                    !pinned.iter().any(|(_, n)| *n == name.as_str()) || MOVABLE.contains(&name.as_str())
                }
                && !out.contains(&name)
            {
                out.push(name);
            }
            rest = &rest[i + 3..];
        }
    }
    out
}

impl U {
    /// Call every name in `names` on `addr` with every argument tuple in `tuples`, under `auth`
    /// (arity or type mismatches simply fail). Returns how many calls were accepted; whatever they
    /// did is for the caller's read-back to judge.
    pub fn try_unknown(&mut self, addr: &Address, names: &[String], tuples: &[soroban_sdk::Vec<Val>], auth: &Auth) -> usize {
        let mut accepted = 0;
        for name in names {
            for args in tuples {
                let (a, n, args) = (addr.clone(), name.clone(), args.clone());
                let o = self.call(auth.clone(), &move |env: &Env| {
                    flat(env.try_invoke_contract::<Val, soroban_sdk::Error>(&a, &soroban_sdk::Symbol::new(env, &n), args.clone())).map(|_| ())
                });
                if o.ok() {
                    accepted += 1;
                }
            }
        }
        accepted
    }
}

