#![allow(dead_code, unused_imports, unused_variables, unused_mut, unused_assignments)]
mod golden;
mod gw;
mod legacy;
mod its;
mod oracle;
mod probes;
mod props;
mod report;
mod rng;
mod tok;
mod univ;

use report::Report;
use std::time::Instant;

pub struct Ctx {
    pub prop: String,
    pub tier: String,
    pub seed: u64,
    pub shard: u64,
    pub of: u64,
    /// When replaying: run only this universe, verbosely.
    pub only_universe: Option<u64>,
    pub scale: f64,
}

impl Ctx {
    pub fn thorough(&self) -> bool {
        self.tier == "thorough"
    }
    /// Number of universes for this run given quick/thorough totals.
    pub fn universes(&self, quick: u64, thorough: u64) -> u64 {
        let n = if self.thorough() { thorough } else { quick };
        ((n as f64) * self.scale).ceil().max(1.0) as u64
    }
    /// Iterate over this shard's universe indices.
    pub fn my_universes(&self, total: u64) -> Vec<u64> {
        if let Some(u) = self.only_universe {
            return vec![u];
        }
        (0..total).filter(|u| u % self.of == self.shard).collect()
    }
    pub fn rng_for(&self, universe: u64) -> rng::Rng {
        rng::Rng::from_parts(&[self.seed, report::h64(&self.prop), universe])
    }
}

fn arg_val(args: &[String], name: &str) -> Option<String> {
    args.iter()
        .position(|a| a == name)
        .and_then(|i| args.get(i + 1).cloned())
}

fn main() {
    // Contract panics are caught by the host and turned into errors; keep stderr quiet.
    if std::env::var("VH_DEBUG").is_err() {
        std::panic::set_hook(Box::new(|_| {}));
    }
    let args: Vec<String> = std::env::args().collect();
    if args.len() < 2 {
        eprintln!("usage: vh run <PROP> --tier T --seed N --shard i --of n --out FILE | vh replay FILE | vh selftest");
        std::process::exit(2);
    }
    match args[1].as_str() {
        "selftest" => {
            let ok = props::selftest::run();
            std::process::exit(if ok { 0 } else { 2 });
        }
        "legacy-make" => {
            let ok = legacy::make();
            std::process::exit(if ok { 0 } else { 2 });
        }
        "mechtest" => {
            let ok = props::selftest::mech();
            std::process::exit(if ok { 0 } else { 2 });
        }
        "run" => {
            let prop = args[2].clone();
            let tier = arg_val(&args, "--tier").unwrap_or("quick".into());
            let seed: u64 = arg_val(&args, "--seed").and_then(|s| s.parse().ok()).unwrap_or(1);
            let shard: u64 = arg_val(&args, "--shard").and_then(|s| s.parse().ok()).unwrap_or(0);
            let of: u64 = arg_val(&args, "--of").and_then(|s| s.parse().ok()).unwrap_or(1);
            let scale: f64 = arg_val(&args, "--scale").and_then(|s| s.parse().ok()).unwrap_or(1.0);
            let only_universe = arg_val(&args, "--universe").and_then(|s| s.parse().ok());
            let out = arg_val(&args, "--out");
            let ctx = Ctx {
                prop: prop.clone(),
                tier: tier.clone(),
                seed,
                shard,
                of,
                only_universe,
                scale,
            };
            let mut rep = Report::new(&prop, &tier, seed, shard, of);
            rep.verbose = only_universe.is_some() || args.iter().any(|a| a == "--verbose");
            let t0 = Instant::now();
            let known = props::dispatch(&ctx, &mut rep);
            if !known {
                eprintln!("unknown property {}", prop);
                std::process::exit(2);
            }
            let j = rep.to_json(t0.elapsed().as_secs_f64());
            match out {
                Some(p) => std::fs::write(p, serde_json::to_string(&j).unwrap()).unwrap(),
                None => {
                    if !rep.verbose {
                        println!("{}", serde_json::to_string_pretty(&j).unwrap())
                    } else {
                        println!(
                            "evaluations={} distinct={} violations={:?} inconclusive={:?}",
                            rep.evaluations,
                            rep.distinct.len(),
                            rep.viol_sigs,
                            rep.inconclusive
                        );
                    }
                }
            }
        }
        _ => {
            eprintln!("unknown command");
            std::process::exit(2);
        }
    }
}
