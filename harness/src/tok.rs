//! Token fixtures shared by several monitors: a Stellar asset contract, the tree's native
//! InterchainToken, and the harness ProbeToken.

use crate::probes::ptoken::{ProbeToken, ProbeTokenClient};
use crate::rng::Rng;
use crate::univ::*;
use interchain_token::{InterchainToken, InterchainTokenClient};
use soroban_sdk::token::{StellarAssetClient, TokenClient};
use soroban_sdk::{Address, BytesN, Env, String as SString};
use soroban_token_sdk::metadata::TokenMetadata;

#[derive(Clone, Copy, Debug, PartialEq, Eq)]
pub enum TokKind {
    Sac,
    Native,
    Probe,
}

#[derive(Clone, Debug)]
pub struct Tok {
    pub kind: TokKind,
    pub addr: Address,
    pub admin: Address,
}

pub fn metadata(env: &Env, name: &[u8], symbol: &[u8], decimals: u32) -> TokenMetadata {
    TokenMetadata {
        decimal: decimals,
        name: SString::from_bytes(env, name),
        symbol: SString::from_bytes(env, symbol),
    }
}

pub fn make_token(u: &mut U, kind: TokKind, admin: &Address, rng: &mut Rng) -> Tok {
    let addr = match kind {
        TokKind::Sac => {
            let a = u.env.register_stellar_asset_contract_v2(admin.clone());
            a.address()
        }
        TokKind::Native => {
            let id = BytesN::from_array(&u.env, &rng.bytes32());
            let md = metadata(&u.env, b"Native Token", b"NAT", 7);
            u.env.register(InterchainToken, (admin.clone(), None::<Address>, id, md))
        }
        TokKind::Probe => u.env.register(
            ProbeToken,
            (SString::from_str(&u.env, "Probe"), SString::from_str(&u.env, "PRB"), 6u32),
        ),
    };
    u.skip_events();
    Tok {
        kind,
        addr,
        admin: admin.clone(),
    }
}

/// Set-up traffic: credit `amount` to `to`.
pub fn mint(u: &mut U, t: &Tok, to: &Address, amount: i128) {
    let t = t.clone();
    let to = to.clone();
    u.setup(move |env| match t.kind {
        TokKind::Sac => StellarAssetClient::new(env, &t.addr).mint(&to, &amount),
        TokKind::Native => InterchainTokenClient::new(env, &t.addr).mint_from(&t.admin, &to, &amount),
        TokKind::Probe => ProbeTokenClient::new(env, &t.addr).give(&to, &amount),
    });
}

pub fn balance(u: &mut U, t: &Address, who: &Address) -> i128 {
    let (t, who) = (t.clone(), who.clone());
    u.query(move |env| TokenClient::new(env, &t).balance(&who))
}

pub fn set_probe_fail(u: &mut U, t: &Tok, fail: bool) {
    if t.kind == TokKind::Probe {
        let t = t.clone();
        // refusals alternate between a trap, one of the token's own contract error codes, and returning false without moving anything
        let kind = (u.calls % 3) as u32;
        u.setup(move |env| {
            let c = ProbeTokenClient::new(env, &t.addr);
            c.set_fail(&fail);
            c.set_fail_kind(&kind);
        });
    }
}
