//! State written by the pinned version of the contracts, continued by the tree's current code.
//!
//! `vh legacy-make` runs a fixed script (deterministic, no randomness from the run's seed) against
//! the contracts and dumps every ledger entry to /verif/legacy/state.json. That file is made once
//! from the pinned tree and committed. A check that calls `run` executes the same script against the
//! current tree (which gives it the addresses, keys and models), replaces the whole ledger by the
//! recorded entries, lets every contract go through upgrade (to the same code) and migrate, and
//! then continues the history: everything the pinned version recorded must still hold and must
//! still be changeable under the current code.

use crate::gw::*;
use crate::its::*;
use crate::oracle::*;
use crate::probes::miniapp::MiniApp;
use crate::probes::target::{ProbeTarget, ProbeTargetClient};
use axelar_gateway::executable::AxelarExecutableClient;
use example::Example;
use crate::report::Report;
use crate::rng::Rng;
use crate::tok::*;
use crate::univ::*;
use axelar_operators::{AxelarOperators, AxelarOperatorsClient};
use interchain_token::{InterchainToken, InterchainTokenClient};
use serde_json::json;
use soroban_sdk::{Address, BytesN, Env, IntoVal, Symbol, Val};

pub const STATE_FILE: &str = concat!(env!("CARGO_MANIFEST_DIR"), "/../legacy/state.json");

pub struct LegacyWorld {
    pub w: ItsWorld,
    pub canon: Tok,
    pub canon_id: [u8; 32],
    pub app: Address,
    pub m_done: MMessage,
    pub m_pending: MMessage,
    pub ops: Address,
    pub op1: Address,
    pub op2: Address,
    pub target: Address,
    pub tok: Address,
    pub minter: Address,
    pub a: Address,
    pub b: Address,
    pub c: Address,
    pub allowance_expiry: u32,
    /// applications on the gateway: (name, address, kind of the event that shows they acted,
    /// (delivered message, payload), (approved but undelivered message, payload))
    pub apps: Vec<(&'static str, Address, &'static str, (MMessage, Vec<u8>), (MMessage, Vec<u8>))>,
}

pub fn deliver(u: &mut U, app: &Address, m: &MMessage, payload: &[u8]) -> CallOut<()> {
    let (app, m, payload) = (app.clone(), m.clone(), payload.to_vec());
    u.call(Auth::Nobody, &move |env: &Env| {
        let c = AxelarExecutableClient::new(env, &app);
        flat(c.try_execute(&sstr(env, &m.source_chain), &sstr(env, &m.message_id), &sstr(env, &m.source_address), &sbytes(env, &payload)))
    })
}

/// The fixed history. None when some step is refused (then the current tree is broken in a way
/// the ordinary workloads report).
pub fn script() -> Option<LegacyWorld> {
    let mut rng = Rng::new(0x1e6ac7);
    GENESIS.with(|c| c.set((100, 1_000_000)));
    let mut w = ItsWorld::new(&mut rng, b"stellar", b"hub-address", 3);
    w.trust(b"Ethereum-X");
    w.trust(b"Avalanche-Y");
    w.trust(b"Old-Z");
    let owner = w.owner.clone();
    if !w.do_set_trusted(b"Old-Z", false, Auth::Only(vec![owner.clone()])).ok() {
        return None;
    }
    w.model.trusted.remove(&b"Old-Z".to_vec());
    // a canonical token with funds in custody
    let admin = w.u.principal();
    let canon = make_token(&mut w.u, TokKind::Probe, &admin, &mut rng);
    let canon_id = w.do_register_canonical(&canon.addr).res.ok()?;
    w.model.tokens.insert(canon_id, TokenRec { id: canon_id, addr: canon.addr.clone(), mode: TokMode::Lock, name: vec![], symbol: vec![], decimals: 0, its_can_mint: false, minter: None });
    let its = w.its.clone();
    mint(&mut w.u, &canon, &its, 1000);
    // two rotations: three signer sets, retention 1
    for _ in 0..2 {
        let s = gen_wellformed_set(&mut rng, &mut w.ring, 2);
        if !w.g.rotate_honest(&mut w.u, &w.ring, &s) {
            return None;
        }
    }
    // two approved messages for an application, one of them consumed
    let app = w.u.principal();
    let mk = |id: &[u8], h: u8| MMessage { source_chain: b"Ethereum-X".to_vec(), message_id: id.to_vec(), source_address: b"0xSrcAddr".to_vec(), contract: sc_addr(&app), payload_hash: [h; 32] };
    let (m_done, m_pending) = (mk(b"legacy-1", 1), mk(b"legacy-2", 2));
    if !w.g.approve_honest(&mut w.u, &w.ring, &[m_done.clone(), m_pending.clone()]) {
        return None;
    }
    match w.g.do_validate_message(&mut w.u, &m_done, Auth::Only(vec![app.clone()])).res {
        Ok(true) => w.g.model.apply_consume(&m_done),
        _ => return None,
    }
    // two applications on the gateway, each with one delivered and one pending message
    let gsx = w.gs.clone();
    let example = w.u.env.register(Example, (&w.g.addr, &gsx));
    let mini = w.u.env.register(MiniApp, (&w.g.addr,));
    let mut apps = Vec::new();
    for (name, addr, kind) in [("example", example, "executed"), ("miniapp", mini, "mini_executed")] {
        let mk = |n: u8| {
            let payload = format!("legacy payload {} for {}", n, name).into_bytes();
            (MMessage { source_chain: b"Ethereum-X".to_vec(), message_id: format!("Legacy-{}-{}", name, n).into_bytes(), source_address: b"0xSrcAddr".to_vec(), contract: sc_addr(&addr), payload_hash: keccak(&payload) }, payload)
        };
        let (done, pending) = (mk(1), mk(2));
        if !w.g.approve_honest(&mut w.u, &w.ring, &[done.0.clone(), pending.0.clone()]) {
            return None;
        }
        if !deliver(&mut w.u, &addr, &done.0, &done.1).ok() {
            return None;
        }
        w.g.model.apply_consume(&done.0);
        apps.push((name, addr, kind, done, pending));
    }
    // operators: op1 is a member, op2 was one
    let ops = w.u.env.register(AxelarOperators, (&owner,));
    let (op1, op2) = (w.u.principal(), w.u.principal());
    let target = w.u.env.register(ProbeTarget, ());
    {
        let (o, a, b) = (ops.clone(), op1.clone(), op2.clone());
        w.u.setup(move |env| {
            let c = AxelarOperatorsClient::new(env, &o);
            c.add_operator(&a);
            c.add_operator(&b);
            c.remove_operator(&b);
        });
    }
    // a token with balances, an allowance and a minter
    let (minter, a, b, c) = (w.u.principal(), w.u.principal(), w.u.principal(), w.u.principal());
    let md = metadata(&w.u.env, b"Legacy", b"LGC", 7);
    let tok = w.u.env.register(InterchainToken, (owner.clone(), Some(minter.clone()), BytesN::from_array(&w.u.env, &[9u8; 32]), md));
    let allowance_expiry = w.u.seq() + 100_000;
    {
        let (t, m, a2, b2, c2) = (tok.clone(), minter.clone(), a.clone(), b.clone(), c.clone());
        w.u.setup(move |env| {
            let cl = InterchainTokenClient::new(env, &t);
            cl.mint_from(&m, &a2, &500);
            cl.approve(&a2, &b2, &100, &allowance_expiry);
            cl.transfer(&a2, &c2, &50);
        });
    }
    w.u.skip_events();
    Some(LegacyWorld { w, canon, canon_id, app, m_done, m_pending, ops, op1, op2, target, tok, minter, a, b, c, allowance_expiry, apps })
}

/// `vh legacy-make`: run the script against the tree and record the ledger.
pub fn make() -> bool {
    let Some(l) = script() else {
        eprintln!("legacy-make: the script was refused");
        return false;
    };
    let entries: Vec<serde_json::Value> = l.w.u.dump_entries().into_iter().map(|(k, e, t)| json!([k, e, t])).collect();
    let doc = json!({
        "made_by": "vh legacy-make on the pinned tree (see DESIGN.md, legacy state)",
        "sequence": l.w.u.seq(),
        "timestamp": l.w.u.time(),
        "addresses": {
            "its": format!("{:?}", sc_addr(&l.w.its)),
            "gateway": format!("{:?}", l.w.g.sc),
            "operators": format!("{:?}", sc_addr(&l.ops)),
            "token": format!("{:?}", sc_addr(&l.tok)),
        },
        "entries": entries,
    });
    std::fs::create_dir_all(std::path::Path::new(STATE_FILE).parent().unwrap()).ok();
    std::fs::write(STATE_FILE, serde_json::to_string(&doc).unwrap()).is_ok()
}

/// Script on the current tree + the recorded ledger laid over it + upgrade and migrate of every
/// contract. Err(reason) when the recorded state does not apply (then nothing is judged).
pub fn load() -> Result<LegacyWorld, String> {
    let text = std::fs::read_to_string(STATE_FILE).map_err(|e| format!("no recorded state: {}", e))?;
    let doc: serde_json::Value = serde_json::from_str(&text).map_err(|e| e.to_string())?;
    let mut l = script().ok_or("the script is refused by the current tree")?;
    let a = &doc["addresses"];
    if a["its"] != format!("{:?}", sc_addr(&l.w.its)) || a["gateway"] != format!("{:?}", l.w.g.sc) || a["operators"] != format!("{:?}", sc_addr(&l.ops)) || a["token"] != format!("{:?}", sc_addr(&l.tok)) {
        return Err("the current tree places the contracts at other addresses".into());
    }
    let entries: Vec<(String, String, Option<u32>)> = doc["entries"]
        .as_array()
        .ok_or("entries")?
        .iter()
        .map(|e| (e[0].as_str().unwrap().to_string(), e[1].as_str().unwrap().to_string(), e[2].as_u64().map(|x| x as u32)))
        .collect();
    l.w.u.load_entries(&entries, doc["sequence"].as_u64().unwrap() as u32, doc["timestamp"].as_u64().unwrap())?;
    // the current code takes over: upgrade (to itself) and migrate, contract by contract
    for c in [l.w.its.clone(), l.w.g.addr.clone(), l.w.gs.clone(), l.ops.clone(), l.tok.clone()] {
        l.w.u.upgrade_and_migrate(&c).map_err(|e| format!("upgrade/migrate over the recorded state: {}", e))?;
    }
    Ok(l)
}

fn viol(rep: &mut Report, sig: &str, detail: String) {
    rep.violation(&format!("legacy-state:{}", sig), detail);
}

/// Continue the recorded history under the current code, judging what property `prop` covers.
pub fn run(rep: &mut Report, prop: &str) {
    // (the script runs the current tree's constructors; if the tree is broken enough for the test
    // host to panic there, the ordinary workloads report it - here it only means "not applicable")
    let loaded = std::panic::catch_unwind(std::panic::AssertUnwindSafe(load)).unwrap_or_else(|_| Err("the script panicked on the current tree".into()));
    let mut l = match loaded {
        Ok(l) => l,
        Err(e) => {
            rep.count("note:legacy-state-not-applicable");
            rep.step(format!("legacy state: {}", e));
            return;
        }
    };
    // the recorded registry knows the canonical token under the id the pinned version derived; if the
    // current tree derives another id for it (new prefixes, another hash input) the statements say
    // nothing about ids across versions, and the registry part of the continuation does not apply
    if matches!(prop, "C04" | "C05" | "C11" | "C18") && l.w.registry_entry(&l.canon_id.clone()).is_none() {
        rep.count("note:legacy-state-not-applicable");
        rep.step("legacy state: the current tree derives other token ids than the recorded ones".into());
        return;
    }
    rep.count("legacy-state-continued");
    rep.step(format!("legacy state loaded; continuing for {}", prop));
    match prop {
        "C04" | "C11" => {
            // what the pinned version recorded about trust and the registry still reads the same
            if let Some(d) = l.w.check_registry() {
                viol(rep, "registry-or-trust-reads-differently", d);
                return;
            }
            let owner = l.w.owner.clone();
            if prop == "C11" {
                let o = l.w.do_register_canonical(&l.canon.addr.clone());
                rep.eval("legacy-state", &format!("legacy|register-again|{}", o.ok()), true);
                if o.ok() {
                    viol(rep, "canonical-registration-repeated", "a token registered under the pinned version was registered again".into());
                }
                return;
            }
            // a chain trusted by the pinned version can be removed (also after an attempt to trust it
            // once more), and is then no longer honoured
            let _ = l.w.do_set_trusted(b"Avalanche-Y", true, Auth::Only(vec![owner.clone()]));
            let o = l.w.do_set_trusted(b"Avalanche-Y", false, Auth::Only(vec![owner]));
            rep.eval("legacy-state", &format!("legacy|remove-trust|{}", o.ok()), true);
            if !o.ok() {
                viol(rep, "trust-removal-refused", format!("{:?}", o.res));
                return;
            }
            l.w.model.trusted.remove(&b"Avalanche-Y".to_vec());
            if let Some(d) = l.w.check_registry() {
                viol(rep, "trust-survives-removal", d);
                return;
            }
            let recipient = l.w.users[0].clone();
            let hub = l.w.model.hub_address.clone();
            for (origin, want) in [(&b"Avalanche-Y"[..], false), (&b"Old-Z"[..], false), (&b"Ethereum-X"[..], true)] {
                let payload = MHubMsg { to_hub: false, chain: origin.to_vec(), inner: MItsMsg::Transfer { token_id: l.canon_id, source: b"0xsrc".to_vec(), dest: addr_bytes(&recipient), amount: 10, amount_hi: 0, data: vec![] } }.encode();
                let mid = l.w.fresh_id();
                if !l.w.approve_for_its(HUB_CHAIN, &mid, &hub, &payload) {
                    rep.foreign("honest-approval-refused");
                    return;
                }
                let before = balance(&mut l.w.u, &l.canon.addr, &recipient);
                let o = l.w.do_execute(HUB_CHAIN, &mid, &hub, &payload);
                let after = balance(&mut l.w.u, &l.canon.addr, &recipient);
                rep.eval("legacy-state", &format!("legacy|inbound|{}|{}", lossy(origin), o.ok()), true);
                if o.ok() != want || after - before != if want { 10 } else { 0 } {
                    viol(rep, &format!("inbound-from-{}", if want { "trusted-chain-refused" } else { "untrusted-chain-accepted" }), format!("origin {:?}: ok={} credited {}", lossy(origin), o.ok(), after - before));
                    return;
                }
            }
        }
        "C05" | "C18" => {
            // outbound requests for the token and toward the chains the pinned version recorded
            let user = l.w.users[1].clone();
            let canon = l.canon.clone();
            mint(&mut l.w.u, &canon, &user, 100);
            l.w.fund_gas(&user, 10);
            let gas = l.w.gas.addr.clone();
            let its = l.w.its.clone();
            // a chain the pinned version trusted is trusted once more (refused or not) and removed
            let owner = l.w.owner.clone();
            let _ = l.w.do_set_trusted(b"Avalanche-Y", true, Auth::Only(vec![owner.clone()]));
            if !l.w.do_set_trusted(b"Avalanche-Y", false, Auth::Only(vec![owner])).ok() {
                viol(rep, "trust-removal-refused", "remove_trusted_chain for a chain the pinned version trusted".into());
                return;
            }
            for (dest, want) in [(&b"Old-Z"[..], false), (&b"Avalanche-Y"[..], false), (&b"Polygon-never"[..], false), (&b"Ethereum-X"[..], true)] {
                let custody = balance(&mut l.w.u, &canon.addr, &its);
                let o = if prop == "C05" {
                    l.w.do_transfer(&user, &l.canon_id.clone(), dest, b"0xdest", 10, None, &gas, 1, Auth::Only(vec![user.clone()])).res.map(|_| ())
                } else {
                    l.w.do_deploy_remote_canonical(&canon.addr, dest, &user, &gas, 1, Auth::Only(vec![user.clone()])).res.map(|_| ())
                };
                let moved = balance(&mut l.w.u, &canon.addr, &its) - custody;
                rep.eval("legacy-state", &format!("legacy|outbound|{}|{}", lossy(dest), o.is_ok()), true);
                let want_moved = if want && prop == "C05" { 10 } else { 0 };
                if o.is_ok() != want || moved != want_moved {
                    viol(rep, &format!("outbound-toward-{}", if want { "trusted-chain-refused" } else { "untrusted-chain-accepted" }), format!("destination {:?}: ok={} custody changed by {}: {:?}", lossy(dest), o.is_ok(), moved, o.err()));
                    return;
                }
            }
        }
        "C02" => {
            for m in [l.m_done.clone(), l.m_pending.clone()] {
                if let Some(d) = l.w.g.check_status(&mut l.w.u, &m) {
                    viol(rep, "message-status-reads-differently", d);
                    return;
                }
            }
            // the executed one stays executed whatever is relayed again; the pending one is consumed once
            let _ = l.w.g.approve_honest(&mut l.w.u, &l.w.ring, &[l.m_done.clone()]);
            let again = l.w.g.do_validate_message(&mut l.w.u, &l.m_done, Auth::Only(vec![l.app.clone()]));
            rep.eval("legacy-state", &format!("legacy|consume-executed|{:?}", again.res), true);
            if again.res != Ok(false) {
                viol(rep, "executed-message-consumed-again", format!("{:?}", again.res));
                return;
            }
            let first = l.w.g.do_validate_message(&mut l.w.u, &l.m_pending, Auth::Only(vec![l.app.clone()]));
            rep.eval("legacy-state", &format!("legacy|consume-pending|{:?}", first.res), true);
            if first.res != Ok(true) {
                viol(rep, "approved-message-not-consumable", format!("{:?}", first.res));
                return;
            }
            l.w.g.model.apply_consume(&l.m_pending);
            let second = l.w.g.do_validate_message(&mut l.w.u, &l.m_pending, Auth::Only(vec![l.app.clone()]));
            if second.res != Ok(false) {
                viol(rep, "message-consumed-twice", format!("{:?}", second.res));
                return;
            }
            for m in [l.m_done.clone(), l.m_pending.clone()] {
                if let Some(d) = l.w.g.check_status(&mut l.w.u, &m) {
                    viol(rep, "message-status-after-continuation", d);
                    return;
                }
            }
        }
        "C03" | "C08" | "C01" => {
            if let Some(d) = l.w.g.check_lookups(&mut l.w.u) {
                viol(rep, "lookups-read-differently", d);
                return;
            }
            let m = l.w.g.model.clone();
            // retention 1: the newest and the one before are honoured, the first one is not
            for (i, set) in m.sets.iter().enumerate() {
                let dh = [i as u8 + 1; 32];
                let plan = plan_honest(&l.w.ring, &m.domain, set, &dh, &all_slots(set));
                let g = &l.w.g;
                let o = l.w.u.probe(|u| g.do_validate_proof(u, &dh, &plan));
                let want = m.epoch() - (i as u64 + 1) <= m.retention;
                rep.eval("legacy-state", &format!("legacy|proof-by-epoch-{}|{}", i + 1, o.ok()), true);
                if o.ok() != want {
                    viol(rep, if want { "retained-set-refused" } else { "expired-set-honoured" }, format!("set of epoch {} at epoch {} (retention {}): accepted={}", i + 1, m.epoch(), m.retention, o.ok()));
                    return;
                }
            }
            if prop == "C03" {
                // a set installed by the pinned version cannot be installed again; a fresh one can
                let newest = m.sets.last().unwrap().clone();
                let old = m.sets[0].clone();
                let plan = plan_honest(&l.w.ring, &m.domain, &newest, &old.rotation_data_hash(), &all_slots(&newest));
                let o = l.w.g.do_rotate(&mut l.w.u, &old, &plan, false, Auth::Nobody);
                rep.eval("legacy-state", &format!("legacy|reinstall-old-set|{}", o.ok()), true);
                if o.ok() {
                    viol(rep, "old-set-installed-again", "a signer set installed under the pinned version was installed a second time".into());
                    return;
                }
                let mut rng = Rng::new(77);
                let fresh = gen_wellformed_set(&mut rng, &mut l.w.ring, 2);
                if !l.w.g.rotate_honest(&mut l.w.u, &l.w.ring, &fresh) {
                    viol(rep, "honest-rotation-refused", "a rotation signed by the newest recorded set was refused".into());
                    return;
                }
                if let Some(d) = l.w.g.check_lookups(&mut l.w.u) {
                    viol(rep, "lookups-after-continuation", d);
                }
            }
        }
        "C16" => {
            let apps = l.apps.clone();
            for (name, addr, kind, done, pending) in apps {
                // whatever is relayed again, the delivered message is not acted on twice
                let _ = l.w.g.approve_honest(&mut l.w.u, &l.w.ring, &[done.0.clone(), pending.0.clone()]);
                let again = deliver(&mut l.w.u, &addr, &done.0, &done.1);
                let acted = again.events.iter().filter(|e| e.kind() == kind).count();
                rep.eval("legacy-state", &format!("legacy|{}|redeliver|{}", name, again.ok()), true);
                if again.ok() || acted != 0 {
                    viol(rep, &format!("delivered-message-acted-on-again:{}", name), format!("ok={} effects={}", again.ok(), acted));
                    return;
                }
                let first = deliver(&mut l.w.u, &addr, &pending.0, &pending.1);
                let acted = first.events.iter().filter(|e| e.kind() == kind).count();
                if !first.ok() || acted != 1 {
                    viol(rep, &format!("approved-message-not-deliverable:{}", name), format!("ok={} effects={}: {:?}", first.ok(), acted, first.res));
                    return;
                }
                let second = deliver(&mut l.w.u, &addr, &pending.0, &pending.1);
                if second.ok() {
                    viol(rep, &format!("message-delivered-twice:{}", name), "the pending message of the recorded state was delivered twice".into());
                    return;
                }
            }
        }
        "C17" => {
            let members = |u: &mut U, ops: &Address, who: &Address| -> bool {
                let (o, w2) = (ops.clone(), who.clone());
                u.query(move |env| AxelarOperatorsClient::new(env, &o).is_operator(&w2))
            };
            if !members(&mut l.w.u, &l.ops, &l.op1) || members(&mut l.w.u, &l.ops, &l.op2) {
                viol(rep, "membership-reads-differently", "is_operator differs from what the pinned version recorded".into());
                return;
            }
            let exec = |u: &mut U, ops: &Address, who: &Address, tgt: &Address| -> bool {
                let (o, w2, t) = (ops.clone(), who.clone(), tgt.clone());
                u.call(Auth::Only(vec![who.clone()]), &move |env: &Env| {
                    let mut a: soroban_sdk::Vec<Val> = soroban_sdk::Vec::new(env);
                    a.push_back(5u32.into_val(env));
                    flat(AxelarOperatorsClient::new(env, &o).try_execute(&w2, &t, &Symbol::new(env, "f1"), &a)).map(|_| ())
                })
                .ok()
            };
            let (r1, r2) = (exec(&mut l.w.u, &l.ops, &l.op1, &l.target), exec(&mut l.w.u, &l.ops, &l.op2, &l.target));
            rep.eval("legacy-state", &format!("legacy|execute|{}|{}", r1, r2), true);
            if !r1 || r2 {
                viol(rep, "execute-disagrees-with-recorded-membership", format!("member executes: {}, former member executes: {}", r1, r2));
                return;
            }
            // the member recorded by the pinned version can be removed under the current code
            let (o, a) = (l.ops.clone(), l.op1.clone());
            let owner = l.w.owner.clone();
            let rm = l.w.u.call(Auth::Only(vec![owner]), &move |env: &Env| flat(AxelarOperatorsClient::new(env, &o).try_remove_operator(&a)));
            if !rm.ok() || members(&mut l.w.u, &l.ops, &l.op1) || exec(&mut l.w.u, &l.ops, &l.op1, &l.target) {
                viol(rep, "recorded-member-not-removable", format!("remove_operator -> {:?}", rm.res));
                return;
            }
            let n = {
                let t = l.target.clone();
                l.w.u.query(move |env| ProbeTargetClient::new(env, &t).log().len())
            };
            if n != 1 {
                viol(rep, "forwarded-call-count", format!("target saw {} calls, expected 1", n));
            }
        }
        "C12" => {
            let read = |u: &mut U, t: &Address, who: &Address| -> i128 {
                let (t, w2) = (t.clone(), who.clone());
                u.query(move |env| InterchainTokenClient::new(env, &t).balance(&w2))
            };
            let allow = |u: &mut U, t: &Address, f: &Address, s: &Address| -> i128 {
                let (t, f, s) = (t.clone(), f.clone(), s.clone());
                u.query(move |env| InterchainTokenClient::new(env, &t).allowance(&f, &s))
            };
            let (ba, bc, al) = (read(&mut l.w.u, &l.tok, &l.a), read(&mut l.w.u, &l.tok, &l.c), allow(&mut l.w.u, &l.tok, &l.a, &l.b));
            rep.eval("legacy-state", &format!("legacy|token|{}|{}|{}", ba, bc, al), true);
            if (ba, bc, al) != (450, 50, 100) {
                viol(rep, "token-state-reads-differently", format!("balances {} / {}, allowance {} (recorded 450 / 50 / 100)", ba, bc, al));
                return;
            }
            let (t, sp, f, to) = (l.tok.clone(), l.b.clone(), l.a.clone(), l.c.clone());
            let o = l.w.u.call(Auth::Only(vec![l.b.clone()]), &move |env: &Env| flat(InterchainTokenClient::new(env, &t).try_transfer_from(&sp, &f, &to, &30)));
            let (t, m, to) = (l.tok.clone(), l.minter.clone(), l.b.clone());
            let o2 = l.w.u.call(Auth::Only(vec![l.minter.clone()]), &move |env: &Env| flat(InterchainTokenClient::new(env, &t).try_mint_from(&m, &to, &7)));
            let (ba, bb, bc, al) = (read(&mut l.w.u, &l.tok, &l.a), read(&mut l.w.u, &l.tok, &l.b), read(&mut l.w.u, &l.tok, &l.c), allow(&mut l.w.u, &l.tok, &l.a, &l.b));
            if !o.ok() || !o2.ok() || (ba, bb, bc, al) != (420, 7, 80, 70) {
                viol(rep, "token-continuation", format!("transfer_from ok={} mint_from ok={} balances {} / {} / {} allowance {}", o.ok(), o2.ok(), ba, bb, bc, al));
                return;
            }
            // past the recorded expiry the allowance is gone
            let d = l.allowance_expiry.saturating_sub(l.w.u.seq()) + 1;
            l.w.u.advance(d);
            if allow(&mut l.w.u, &l.tok, &l.a, &l.b) != 0 {
                viol(rep, "allowance-outlives-recorded-expiry", "allowance still positive after its expiration ledger".into());
            }
        }
        _ => {}
    }
}
