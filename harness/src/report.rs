//! Per-shard result collection and JSON output.

use serde_json::{json, Value};
use std::collections::{BTreeMap, BTreeSet};

#[derive(Clone, Debug)]
pub struct Violation {
    pub sig: String,
    pub detail: String,
    pub universe: u64,
    pub step: usize,
    pub trace: Vec<String>,
}

pub struct Report {
    pub prop: String,
    pub tier: String,
    pub seed: u64,
    pub shard: u64,
    pub of: u64,
    pub evaluations: u64,
    pub distinct: BTreeSet<u64>,
    pub hist: BTreeMap<String, u64>,
    pub events: BTreeMap<String, u64>,
    pub shapes: BTreeSet<u64>,
    pub violations: Vec<Violation>,
    pub viol_sigs: BTreeMap<String, u64>,
    pub foreign: BTreeMap<String, u64>,
    pub samples: Vec<Value>,
    pub inconclusive: Vec<String>,
    pub notes: BTreeMap<String, Value>,
    pub exhaustive: Option<bool>,
    pub universes: u64,
    pub verbose: bool,
    // current universe
    pub cur_universe: u64,
    pub trace: Vec<String>,
    last_kinds: Vec<u64>,
}

pub fn h64(s: &str) -> u64 {
    // FNV-1a
    let mut h: u64 = 0xcbf29ce484222325;
    for b in s.as_bytes() {
        h ^= *b as u64;
        h = h.wrapping_mul(0x100000001b3);
    }
    h
}

impl Report {
    pub fn new(prop: &str, tier: &str, seed: u64, shard: u64, of: u64) -> Report {
        Report {
            prop: prop.to_string(),
            tier: tier.to_string(),
            seed,
            shard,
            of,
            evaluations: 0,
            distinct: BTreeSet::new(),
            hist: BTreeMap::new(),
            events: BTreeMap::new(),
            shapes: BTreeSet::new(),
            violations: Vec::new(),
            viol_sigs: BTreeMap::new(),
            foreign: BTreeMap::new(),
            samples: Vec::new(),
            inconclusive: Vec::new(),
            notes: BTreeMap::new(),
            exhaustive: None,
            universes: 0,
            verbose: false,
            cur_universe: 0,
            trace: Vec::new(),
            last_kinds: Vec::new(),
        }
    }

    pub fn begin_universe(&mut self, u: u64) {
        self.cur_universe = u;
        crate::univ::set_genesis_for(u);
        self.universes += 1;
        self.trace.clear();
        self.last_kinds.clear();
    }

    /// Log one step of the current universe (kept for replay traces).
    pub fn step(&mut self, s: String) {
        if self.verbose {
            println!("  [{}#{}] {}", self.cur_universe, self.trace.len(), s);
        }
        self.trace.push(s);
        if self.trace.len() > 400 {
            self.trace.remove(0);
        }
    }

    /// One verdict-bearing evaluation. `class` feeds the histogram; `sig` (class + abstract state
    /// + outcome) feeds the distinct count when `nontrivial`.
    pub fn eval(&mut self, class: &str, sig: &str, nontrivial: bool) {
        self.evaluations += 1;
        *self.hist.entry(class.to_string()).or_insert(0) += 1;
        if nontrivial {
            self.distinct.insert(h64(sig));
        }
        // history shapes: trigrams of op classes
        let k = h64(class);
        self.last_kinds.push(k);
        if self.last_kinds.len() > 3 {
            self.last_kinds.remove(0);
        }
        if self.last_kinds.len() == 3 {
            self.shapes.insert(
                self.last_kinds[0]
                    .wrapping_mul(31)
                    .wrapping_add(self.last_kinds[1])
                    .wrapping_mul(31)
                    .wrapping_add(self.last_kinds[2]),
            );
        }
    }

    pub fn event(&mut self, kind: &str) {
        *self.events.entry(kind.to_string()).or_insert(0) += 1;
    }

    pub fn count(&mut self, key: &str) {
        *self.hist.entry(key.to_string()).or_insert(0) += 1;
    }

    pub fn foreign(&mut self, what: &str) {
        *self.foreign.entry(what.to_string()).or_insert(0) += 1;
    }

    pub fn sample(&mut self, v: Value) {
        if self.samples.len() < 6 {
            self.samples.push(v);
        }
    }

    pub fn violation(&mut self, sig: &str, detail: String) {
        let n = self.viol_sigs.entry(sig.to_string()).or_insert(0);
        *n += 1;
        if self.verbose {
            println!("  !! VIOLATION sig={} {}", sig, detail);
        }
        if *n <= 2 && self.violations.len() < 40 {
            self.violations.push(Violation {
                sig: sig.to_string(),
                detail,
                universe: self.cur_universe,
                step: self.trace.len(),
                trace: self.trace.clone(),
            });
        }
    }

    pub fn inconclusive(&mut self, why: String) {
        if self.inconclusive.len() < 20 {
            self.inconclusive.push(why);
        }
    }

    pub fn to_json(&self, wall_s: f64) -> Value {
        json!({
            "prop": self.prop,
            "tier": self.tier,
            "seed": self.seed,
            "shard": self.shard,
            "of": self.of,
            "evaluations": self.evaluations,
            "distinct": self.distinct.iter().map(|x| format!("{:016x}", x)).collect::<Vec<_>>(),
            "shapes": self.shapes.iter().map(|x| format!("{:016x}", x)).collect::<Vec<_>>(),
            "hist": self.hist,
            "events": self.events,
            "foreign": self.foreign,
            "viol_sigs": self.viol_sigs,
            "violations": self.violations.iter().map(|v| json!({
                "sig": v.sig, "detail": v.detail, "universe": v.universe, "step": v.step, "trace": v.trace,
            })).collect::<Vec<_>>(),
            "samples": self.samples,
            "inconclusive": self.inconclusive,
            "notes": self.notes,
            "exhaustive": self.exhaustive,
            "universes": self.universes,
            "wall_s": wall_s,
        })
    }
}
