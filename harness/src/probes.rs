//! Harness contracts placed at the boundaries the properties talk about.

pub mod acct {
    use soroban_sdk::auth::{Context, CustomAccountInterface};
    use soroban_sdk::crypto::Hash;
    use soroban_sdk::{contract, contracterror, contractimpl, Env, Val, Vec};

    #[contracterror]
    #[derive(Copy, Clone, Debug, Eq, PartialEq)]
    #[repr(u32)]
    pub enum AcctError {
        Never = 1,
    }

    /// Principal account: accepts any authorisation entry that names it.
    #[contract]
    pub struct Acct;

    #[contractimpl]
    impl CustomAccountInterface for Acct {
        type Signature = Val;
        type Error = AcctError;
        fn __check_auth(
            _env: Env,
            _signature_payload: Hash<32>,
            _signatures: Val,
            _auth_contexts: Vec<Context>,
        ) -> Result<(), AcctError> {
            Ok(())
        }
    }
}

pub mod proxy {
    use soroban_sdk::{contract, contractimpl, Address, Env, Symbol, Val, Vec};

    /// Forwards an arbitrary call, so that "the named address is the calling contract".
    #[contract]
    pub struct Proxy;

    #[contractimpl]
    impl Proxy {
        pub fn fwd(env: Env, target: Address, func: Symbol, args: Vec<Val>) -> Val {
            env.invoke_contract::<Val>(&target, &func, args)
        }
    }
}

pub mod factory {
    use soroban_sdk::{contract, contractimpl, Address, BytesN, Env, Val, Vec};

    /// Deploys a contract from inside a contract frame, so constructor failures surface as
    /// ordinary call errors instead of harness panics.
    #[contract]
    pub struct Factory;

    #[contractimpl]
    impl Factory {
        pub fn deploy(env: Env, wasm_hash: BytesN<32>, salt: BytesN<32>, args: Vec<Val>) -> Address {
            env.deployer()
                .with_current_contract(salt)
                .deploy_v2(wasm_hash, args)
        }
    }
}

pub mod target {
    use soroban_sdk::auth::{Context, CustomAccountInterface};
    use soroban_sdk::crypto::Hash;
    use soroban_sdk::{contract, contracterror, contractimpl, contracttype, Env, Symbol, Val, Vec};

    #[contracterror]
    #[derive(Copy, Clone, Debug, Eq, PartialEq)]
    #[repr(u32)]
    pub enum TargetError {
        Never = 1,
    }

    /// The probe target can also act as a principal (so that one address can be both the
    /// authorising party and the contract being called).
    #[contractimpl]
    impl CustomAccountInterface for ProbeTarget {
        type Signature = Val;
        type Error = TargetError;
        fn __check_auth(_env: Env, _signature_payload: Hash<32>, _signatures: Val, _auth_contexts: Vec<Context>) -> Result<(), TargetError> {
            Ok(())
        }
    }

    #[contracttype]
    pub enum TKey {
        Log,
        Ret,
        Fail,
        FailKind,
    }

    /// Records every call (function, args) in its storage, returns a configured value, panics
    /// on demand.
    #[contract]
    pub struct ProbeTarget;

    impl ProbeTarget {
        fn record(env: &Env, name: &str, args: Vec<Val>) -> Val {
            if env.storage().instance().get::<_, bool>(&TKey::Fail).unwrap_or(false) {
                // fail by trapping, or the polite way: with one of the contract's own error codes
                if env.storage().instance().get::<_, u32>(&TKey::FailKind).unwrap_or(0) == 1 {
                    soroban_sdk::panic_with_error!(env, TargetError::Never);
                }
                panic!("probe target told to fail");
            }
            let mut log: Vec<Val> = env
                .storage()
                .instance()
                .get(&TKey::Log)
                .unwrap_or(Vec::new(env));
            let mut rec: Vec<Val> = Vec::new(env);
            rec.push_back(Symbol::new(env, name).to_val());
            rec.push_back(args.to_val());
            log.push_back(rec.to_val());
            env.storage().instance().set(&TKey::Log, &log);
            env.storage()
                .instance()
                .get::<_, Val>(&TKey::Ret)
                .unwrap_or(Val::VOID.to_val())
        }
    }

    #[contractimpl]
    impl ProbeTarget {
        pub fn set_ret(env: Env, v: Val) {
            env.storage().instance().set(&TKey::Ret, &v);
        }
        pub fn set_fail(env: Env, f: bool) {
            env.storage().instance().set(&TKey::Fail, &f);
        }
        pub fn set_fail_kind(env: Env, k: u32) {
            env.storage().instance().set(&TKey::FailKind, &k);
        }
        pub fn log(env: Env) -> Vec<Val> {
            env.storage()
                .instance()
                .get(&TKey::Log)
                .unwrap_or(Vec::new(&env))
        }
        pub fn f0(env: Env) -> Val {
            Self::record(&env, "f0", Vec::new(&env))
        }
        pub fn f1(env: Env, a: Val) -> Val {
            let mut v = Vec::new(&env);
            v.push_back(a);
            Self::record(&env, "f1", v)
        }
        pub fn f2(env: Env, a: Val, b: Val) -> Val {
            let mut v = Vec::new(&env);
            v.push_back(a);
            v.push_back(b);
            Self::record(&env, "f2", v)
        }
        pub fn f3(env: Env, a: Val, b: Val, c: Val) -> Val {
            let mut v = Vec::new(&env);
            v.push_back(a);
            v.push_back(b);
            v.push_back(c);
            Self::record(&env, "f3", v)
        }
        pub fn f4(env: Env, a: Val, b: Val, c: Val, d: Val) -> Val {
            let mut v = Vec::new(&env);
            v.push_back(a);
            v.push_back(b);
            v.push_back(c);
            v.push_back(d);
            Self::record(&env, "f4", v)
        }
        pub fn g1(env: Env, a: Val) -> Val {
            let mut v = Vec::new(&env);
            v.push_back(a);
            Self::record(&env, "g1", v)
        }
    }
}

pub mod its_exec {
    use interchain_token_service::executable::InterchainTokenExecutableInterface;
    use soroban_sdk::{
        contract, contractimpl, contracttype, token, Address, Bytes, BytesN, Env, String, Val, Vec,
    };

    #[contracttype]
    pub enum EKey {
        Its,
        Fail,
        Log,
        FailKind,
    }

    #[soroban_sdk::contracterror]
    #[derive(Copy, Clone, Debug, Eq, PartialEq)]
    #[repr(u32)]
    pub enum ExecError {
        Rejected = 7,
    }

    /// Destination application for transfers with data.
    #[contract]
    pub struct ProbeExecutable;

    #[contractimpl]
    impl InterchainTokenExecutableInterface for ProbeExecutable {
        fn interchain_token_service(env: &Env) -> Address {
            env.storage().instance().get(&EKey::Its).unwrap()
        }

        fn execute_with_interchain_token(
            env: &Env,
            source_chain: String,
            message_id: String,
            source_address: Bytes,
            payload: Bytes,
            token_id: BytesN<32>,
            token_address: Address,
            amount: i128,
        ) {
            Self::validate(env);
            if env.storage().instance().get::<_, bool>(&EKey::Fail).unwrap_or(false) {
                if env.storage().instance().get::<_, u32>(&EKey::FailKind).unwrap_or(0) == 1 {
                    soroban_sdk::panic_with_error!(env, ExecError::Rejected);
                }
                panic!("probe executable told to fail");
            }
            // the tokens must already be here when the application is called
            let bal = token::Client::new(env, &token_address).balance(&env.current_contract_address());
            let mut log: Vec<Val> = env
                .storage()
                .instance()
                .get(&EKey::Log)
                .unwrap_or(Vec::new(env));
            let mut rec: Vec<Val> = Vec::new(env);
            rec.push_back(source_chain.to_val());
            rec.push_back(message_id.to_val());
            rec.push_back(source_address.to_val());
            rec.push_back(payload.to_val());
            rec.push_back(token_id.to_val());
            rec.push_back(token_address.to_val());
            rec.push_back(soroban_sdk::IntoVal::<Env, Val>::into_val(&amount, env));
            rec.push_back(soroban_sdk::IntoVal::<Env, Val>::into_val(&bal, env));
            log.push_back(rec.to_val());
            env.storage().instance().set(&EKey::Log, &log);
        }
    }

    #[contractimpl]
    impl ProbeExecutable {
        pub fn __constructor(env: Env, its: Address) {
            env.storage().instance().set(&EKey::Its, &its);
        }
        pub fn set_fail(env: Env, f: bool) {
            env.storage().instance().set(&EKey::Fail, &f);
        }
        pub fn set_fail_kind(env: Env, k: u32) {
            env.storage().instance().set(&EKey::FailKind, &k);
        }
        pub fn log(env: Env) -> Vec<Val> {
            env.storage()
                .instance()
                .get(&EKey::Log)
                .unwrap_or(Vec::new(&env))
        }
    }
}

pub mod miniapp {
    use axelar_gateway::executable::AxelarExecutableInterface;
    use soroban_sdk::{contract, contractimpl, contracttype, panic_with_error, Address, Bytes, Env, String, Symbol};

    #[contracttype]
    pub enum MKey {
        Gateway,
    }

    /// Minimal user of the executable interface's validation helper.
    #[contract]
    pub struct MiniApp;

    #[contractimpl]
    impl AxelarExecutableInterface for MiniApp {
        fn gateway(env: &Env) -> Address {
            env.storage().instance().get(&MKey::Gateway).unwrap()
        }

        fn execute(
            env: Env,
            source_chain: String,
            message_id: String,
            source_address: String,
            payload: Bytes,
        ) {
            if let Err(e) =
                Self::validate_message(&env, &source_chain, &message_id, &source_address, &payload)
            {
                panic_with_error!(env, e);
            }
            env.events().publish(
                (Symbol::new(&env, "mini_executed"), source_chain, message_id, source_address),
                (payload,),
            );
        }
    }

    #[contractimpl]
    impl MiniApp {
        pub fn __constructor(env: Env, gateway: Address) {
            env.storage().instance().set(&MKey::Gateway, &gateway);
        }
    }
}

pub mod ptoken {
    use soroban_sdk::{contract, contractimpl, contracttype, Address, Env, String};

    #[contracttype]
    pub enum PKey {
        Name,
        Symbol,
        Decimals,
        Bal(Address),
        FailNext,
        FailKind,
        Allow(Address, Address),
    }

    #[soroban_sdk::contracterror]
    #[derive(Copy, Clone, Debug, Eq, PartialEq)]
    #[repr(u32)]
    pub enum PTokenError {
        Refused = 10,
    }

    /// Token with the complete standard token interface, settable metadata and a "refuse
    /// transfers" switch.
    #[contract]
    pub struct ProbeToken;

    #[contractimpl]
    impl ProbeToken {
        pub fn __constructor(env: Env, name: String, symbol: String, decimals: u32) {
            env.storage().instance().set(&PKey::Name, &name);
            env.storage().instance().set(&PKey::Symbol, &symbol);
            env.storage().instance().set(&PKey::Decimals, &decimals);
        }
        pub fn set_meta(env: Env, name: String, symbol: String, decimals: u32) {
            env.storage().instance().set(&PKey::Name, &name);
            env.storage().instance().set(&PKey::Symbol, &symbol);
            env.storage().instance().set(&PKey::Decimals, &decimals);
        }
        pub fn set_fail(env: Env, f: bool) {
            env.storage().instance().set(&PKey::FailNext, &f);
        }
        pub fn set_fail_kind(env: Env, k: u32) {
            env.storage().instance().set(&PKey::FailKind, &k);
        }
        pub fn give(env: Env, to: Address, amount: i128) {
            let b: i128 = env.storage().persistent().get(&PKey::Bal(to.clone())).unwrap_or(0);
            env.storage().persistent().set(&PKey::Bal(to), &(b + amount));
        }
        pub fn name(env: Env) -> String {
            env.storage().instance().get(&PKey::Name).unwrap()
        }
        pub fn symbol(env: Env) -> String {
            env.storage().instance().get(&PKey::Symbol).unwrap()
        }
        pub fn decimals(env: Env) -> u32 {
            env.storage().instance().get(&PKey::Decimals).unwrap()
        }
        pub fn balance(env: Env, id: Address) -> i128 {
            env.storage().persistent().get(&PKey::Bal(id)).unwrap_or(0)
        }
        pub fn transfer(env: Env, from: Address, to: Address, amount: i128) -> soroban_sdk::Val {
            from.require_auth();
            if env.storage().instance().get::<_, bool>(&PKey::FailNext).unwrap_or(false) {
                // the soft way: report failure through the return value and move nothing
                if env.storage().instance().get::<_, u32>(&PKey::FailKind).unwrap_or(0) == 2 {
                    return soroban_sdk::Val::from_bool(false).to_val();
                }
                if env.storage().instance().get::<_, u32>(&PKey::FailKind).unwrap_or(0) == 1 {
                    soroban_sdk::panic_with_error!(&env, PTokenError::Refused);
                }
                panic!("probe token refuses");
            }
            if amount < 0 {
                panic!("negative");
            }
            let fb: i128 = env.storage().persistent().get(&PKey::Bal(from.clone())).unwrap_or(0);
            if fb < amount {
                panic!("insufficient");
            }
            env.storage().persistent().set(&PKey::Bal(from), &(fb - amount));
            let tb: i128 = env.storage().persistent().get(&PKey::Bal(to.clone())).unwrap_or(0);
            env.storage().persistent().set(&PKey::Bal(to), &(tb + amount));
            soroban_sdk::Val::VOID.to_val()
        }
        pub fn allowance(env: Env, from: Address, spender: Address) -> i128 {
            match env.storage().persistent().get::<_, (i128, u32)>(&PKey::Allow(from, spender)) {
                Some((a, exp)) if exp >= env.ledger().sequence() => a,
                _ => 0,
            }
        }
        pub fn approve(env: Env, from: Address, spender: Address, amount: i128, expiration_ledger: u32) {
            from.require_auth();
            if amount < 0 || (amount > 0 && expiration_ledger < env.ledger().sequence()) {
                panic!("bad approval");
            }
            env.storage().persistent().set(&PKey::Allow(from, spender), &(amount, expiration_ledger));
        }
        pub fn transfer_from(env: Env, spender: Address, from: Address, to: Address, amount: i128) {
            spender.require_auth();
            if env.storage().instance().get::<_, bool>(&PKey::FailNext).unwrap_or(false) {
                if env.storage().instance().get::<_, u32>(&PKey::FailKind).unwrap_or(0) == 1 {
                    soroban_sdk::panic_with_error!(&env, PTokenError::Refused);
                }
                panic!("probe token refuses");
            }
            Self::spend(&env, &from, &spender, amount);
            Self::debit(&env, &from, amount);
            let tb: i128 = env.storage().persistent().get(&PKey::Bal(to.clone())).unwrap_or(0);
            env.storage().persistent().set(&PKey::Bal(to), &(tb + amount));
        }
        pub fn burn(env: Env, from: Address, amount: i128) {
            from.require_auth();
            Self::debit(&env, &from, amount);
        }
        pub fn burn_from(env: Env, spender: Address, from: Address, amount: i128) {
            spender.require_auth();
            Self::spend(&env, &from, &spender, amount);
            Self::debit(&env, &from, amount);
        }
    }

    impl ProbeToken {
        fn debit(env: &Env, from: &Address, amount: i128) {
            if amount < 0 {
                panic!("negative");
            }
            let fb: i128 = env.storage().persistent().get(&PKey::Bal(from.clone())).unwrap_or(0);
            if fb < amount {
                panic!("insufficient");
            }
            env.storage().persistent().set(&PKey::Bal(from.clone()), &(fb - amount));
        }
        fn spend(env: &Env, from: &Address, spender: &Address, amount: i128) {
            if amount < 0 {
                panic!("negative");
            }
            let a = Self::allowance(env.clone(), from.clone(), spender.clone());
            if a < amount {
                panic!("allowance");
            }
            if amount > 0 {
                let exp = env.storage().persistent().get::<_, (i128, u32)>(&PKey::Allow(from.clone(), spender.clone())).map(|x| x.1).unwrap_or(0);
                env.storage().persistent().set(&PKey::Allow(from.clone(), spender.clone()), &(a - amount, exp));
            }
        }
    }
}

pub mod vtarget {
    use axelar_soroban_std::interfaces::{self, OwnableInterface, UpgradableInterface};
    use soroban_sdk::{contract, contracterror, contractimpl, contracttype, Address, BytesN, Env, String};

    #[contracttype]
    pub enum VKey {
        Version,
        Data,
        Note,
        Mode,
        Base,
    }

    #[contracterror]
    #[derive(Copy, Clone, Debug, Eq, PartialEq)]
    #[repr(u32)]
    pub enum VError {
        MigrationNotAllowed = 1,
    }

    /// Upgradable target built on the tree's `interfaces::upgrade` / `interfaces::migrate`. As with a
    /// real code swap, the version it reports changes when the code is replaced (every change
    /// makes it the next of "3.1.4", "3.1.5", ...), not when the migration runs - unless `set_mode` says
    /// otherwise; the migration takes a string as its data and leaves a mark.
    #[contract]
    pub struct VersionedTarget;

    #[contractimpl]
    impl OwnableInterface for VersionedTarget {
        fn owner(env: &Env) -> Address {
            interfaces::owner(env)
        }
        fn transfer_ownership(env: &Env, new_owner: Address) {
            interfaces::transfer_ownership::<Self>(env, new_owner);
        }
    }

    #[contractimpl]
    impl UpgradableInterface for VersionedTarget {
        fn version(env: &Env) -> String {
            let n: u32 = env.storage().instance().get(&VKey::Version).unwrap_or(0);
            if n == 0 {
                env.storage().instance().get(&VKey::Base).unwrap_or(String::from_str(env, "1.0.0"))
            } else {
                String::from_str(env, &std::format!("3.1.{}", 3 + n))
            }
        }
        fn upgrade(env: &Env, new_wasm_hash: BytesN<32>) {
            interfaces::upgrade::<Self>(env, new_wasm_hash);
            if Self::mode(env.clone()) != 1 {
                let n: u32 = env.storage().instance().get(&VKey::Version).unwrap_or(0);
                env.storage().instance().set(&VKey::Version, &(n + 1));
            }
        }
    }

    #[contractimpl]
    impl VersionedTarget {
        pub fn __constructor(env: Env, owner: Address) {
            interfaces::set_owner(&env, &owner);
        }
        pub fn migrate(env: Env, note: String) -> Result<(), VError> {
            interfaces::migrate::<Self>(&env, || {
                env.storage().instance().set(&VKey::Note, &note);
                env.storage().instance().set(&VKey::Data, &true);
                if Self::mode(env.clone()) != 0 {
                    let n: u32 = env.storage().instance().get(&VKey::Version).unwrap_or(0);
                    env.storage().instance().set(&VKey::Version, &(n + 1));
                }
            })
            .map_err(|_| VError::MigrationNotAllowed)
        }
        pub fn data(env: Env) -> bool {
            env.storage().instance().get(&VKey::Data).unwrap_or(false)
        }
        /// 0: the version changes with the code (as a real swap does); 1: only the migration
        /// changes it; 2: both do (the version after `upgrade` is not the final one).
        pub fn set_mode(env: Env, mode: u32) {
            env.storage().instance().set(&VKey::Mode, &mode);
        }
        /// The version reported before any upgrade (default "1.0.0").
        pub fn set_base(env: Env, v: String) {
            env.storage().instance().set(&VKey::Base, &v);
        }
        pub fn mode(env: Env) -> u32 {
            env.storage().instance().get(&VKey::Mode).unwrap_or(0)
        }
    }
}

pub mod pgateway {
    use soroban_sdk::{contract, contractimpl, contracttype, Address, Bytes, BytesN, Env, String, Val};

    #[contracttype]
    pub enum GKey {
        Answer,
        Asked,
    }

    /// A stand-in gateway: answers `validate_message` with whatever value it was told to (a bool
    /// like the real one, or something else), accepts outbound calls, counts how often it was asked.
    #[contract]
    pub struct ProbeGateway;

    #[contractimpl]
    impl ProbeGateway {
        pub fn set_answer(env: Env, v: Val) {
            env.storage().instance().set(&GKey::Answer, &v);
        }
        pub fn asked(env: Env) -> u32 {
            env.storage().instance().get(&GKey::Asked).unwrap_or(0)
        }
        pub fn validate_message(env: Env, _caller: Address, _source_chain: String, _message_id: String, _source_address: String, _payload_hash: BytesN<32>) -> Val {
            let n: u32 = env.storage().instance().get(&GKey::Asked).unwrap_or(0);
            env.storage().instance().set(&GKey::Asked, &(n + 1));
            env.storage().instance().get::<_, Val>(&GKey::Answer).unwrap_or(Val::VOID.to_val())
        }
        pub fn call_contract(_env: Env, _caller: Address, _destination_chain: String, _destination_address: String, _payload: Bytes) {}
        /// The views answer like `validate_message` would (without counting).
        pub fn is_message_approved(env: Env, _source_chain: String, _message_id: String, _source_address: String, _contract_address: Address, _payload_hash: BytesN<32>) -> Val {
            env.storage().instance().get::<_, Val>(&GKey::Answer).unwrap_or(Val::VOID.to_val())
        }
        pub fn is_message_executed(_env: Env, _source_chain: String, _message_id: String) -> bool {
            false
        }
    }
}
