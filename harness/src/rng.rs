//! Deterministic PRNG (xoshiro256**, seeded through splitmix64). Every random choice of the
//! harness is drawn from one of these, seeded from (VERIF_SEED, shard, universe).

#[derive(Clone, Debug)]
pub struct Rng {
    s: [u64; 4],
}

fn splitmix(x: &mut u64) -> u64 {
    *x = x.wrapping_add(0x9E37_79B9_7F4A_7C15);
    let mut z = *x;
    z = (z ^ (z >> 30)).wrapping_mul(0xBF58_476D_1CE4_E5B9);
    z = (z ^ (z >> 27)).wrapping_mul(0x94D0_49BB_1331_11EB);
    z ^ (z >> 31)
}

impl Rng {
    pub fn new(seed: u64) -> Self {
        let mut x = seed;
        let s = [
            splitmix(&mut x),
            splitmix(&mut x),
            splitmix(&mut x),
            splitmix(&mut x),
        ];
        Rng { s }
    }

    /// Derive a sub-stream from several integers.
    pub fn from_parts(parts: &[u64]) -> Self {
        let mut acc = 0x243F_6A88_85A3_08D3u64;
        for p in parts {
            acc ^= *p;
            acc = splitmix(&mut acc);
        }
        Rng::new(acc)
    }

    pub fn next_u64(&mut self) -> u64 {
        let result = self.s[1].wrapping_mul(5).rotate_left(7).wrapping_mul(9);
        let t = self.s[1] << 17;
        self.s[2] ^= self.s[0];
        self.s[3] ^= self.s[1];
        self.s[1] ^= self.s[2];
        self.s[0] ^= self.s[3];
        self.s[2] ^= t;
        self.s[3] = self.s[3].rotate_left(45);
        result
    }

    pub fn next_u128(&mut self) -> u128 {
        ((self.next_u64() as u128) << 64) | self.next_u64() as u128
    }

    /// Uniform in 0..n (n > 0).
    pub fn below(&mut self, n: u64) -> u64 {
        assert!(n > 0);
        // rejection-free multiply-shift is good enough for workload generation
        ((self.next_u64() as u128 * n as u128) >> 64) as u64
    }

    pub fn range(&mut self, lo: u64, hi_incl: u64) -> u64 {
        lo + self.below(hi_incl - lo + 1)
    }

    pub fn usize(&mut self, n: usize) -> usize {
        self.below(n as u64) as usize
    }

    pub fn chance(&mut self, num: u64, den: u64) -> bool {
        self.below(den) < num
    }

    pub fn pick<'a, T>(&mut self, xs: &'a [T]) -> &'a T {
        &xs[self.usize(xs.len())]
    }

    /// Weighted pick: returns index.
    pub fn weighted(&mut self, ws: &[u32]) -> usize {
        let total: u64 = ws.iter().map(|w| *w as u64).sum();
        let mut r = self.below(total);
        for (i, w) in ws.iter().enumerate() {
            if r < *w as u64 {
                return i;
            }
            r -= *w as u64;
        }
        ws.len() - 1
    }

    pub fn bytes(&mut self, n: usize) -> Vec<u8> {
        let mut v = Vec::with_capacity(n);
        while v.len() < n {
            let x = self.next_u64().to_le_bytes();
            let take = (n - v.len()).min(8);
            v.extend_from_slice(&x[..take]);
        }
        v
    }

    pub fn bytes32(&mut self) -> [u8; 32] {
        let mut a = [0u8; 32];
        a.copy_from_slice(&self.bytes(32));
        a
    }

    pub fn shuffle<T>(&mut self, xs: &mut [T]) {
        for i in (1..xs.len()).rev() {
            let j = self.usize(i + 1);
            xs.swap(i, j);
        }
    }
}

impl Rng {
    /// Random bytes of random length below `max_len`.
    pub fn bytes_upto(&mut self, max_len: usize) -> Vec<u8> {
        let n = self.usize(max_len.max(1));
        self.bytes(n)
    }
}

impl Rng {
    /// Random bytes whose length is picked from `lens`.
    pub fn bytes_of(&mut self, lens: &[usize]) -> Vec<u8> {
        let n = lens[self.usize(lens.len())];
        self.bytes(n)
    }
}

impl Rng {
    /// Ledger jump sizes: mostly small, sometimes beyond every TTL a contract is likely to set
    /// for temporary data (17 > the 16-ledger minimum; 1.3 M > 60 days of ledgers).
    pub fn ledger_jump(&mut self) -> u32 {
        match self.below(20) {
            0..=7 => 1,
            8..=11 => 17,
            12 | 13 => 100,
            14 | 15 => 5_000,
            16 | 17 => 120_000,
            18 => if self.chance(1, 2) { 1_300_000 } else { 2_500_000 },
            // univ::EON: long enough for every temporary entry alive now to expire
            _ => u32::MAX,
        }
    }
}
