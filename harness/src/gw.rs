//! Gateway fixture: reference model (by value), proof construction with validity known by
//! construction, and stepping helpers that compare the real contract with the model.

use crate::oracle::*;
use crate::rng::Rng;
use crate::univ::*;
use axelar_gateway::types::{
    Message, Proof, ProofSignature, ProofSigner, WeightedSigner, WeightedSigners,
};
use axelar_gateway::{AxelarGateway, AxelarGatewayClient};
use soroban_sdk::xdr::{ScAddress, ScVal};
use soroban_sdk::{Address, Bytes, BytesN, Env, String as SString, Vec as SVec};
use std::collections::{BTreeMap, HashMap};

#[derive(Clone, Debug, PartialEq, Eq)]
pub enum Must {
    Succeed,
    Fail(&'static str),
    Either(&'static str),
}

#[derive(Clone, Debug, PartialEq, Eq)]
pub enum MsgStatus {
    Approved(MMessage),
    Executed,
}

#[derive(Clone, Debug)]
pub enum SlotSig {
    None,
    Valid([u8; 64]),
    Invalid([u8; 64]),
}

#[derive(Clone, Debug)]
pub struct ProofPlan {
    pub declared: MSigners,
    pub slots: Vec<SlotSig>,
    pub desc: String,
}

#[derive(Default, Clone)]
pub struct KeyRing {
    pub keys: HashMap<[u8; 32], KeyPair>,
}

impl KeyRing {
    pub fn gen(&mut self, rng: &mut Rng) -> [u8; 32] {
        let kp = KeyPair::from_seed(rng.bytes32());
        let pk = kp.pk;
        self.keys.insert(pk, kp);
        pk
    }
    pub fn get(&self, pk: &[u8; 32]) -> Option<&KeyPair> {
        self.keys.get(pk)
    }
}

#[derive(Clone)]
pub struct GwModel {
    pub domain: [u8; 32],
    pub retention: u64,
    pub delay: u64,
    pub sets: Vec<MSigners>, // sets[e-1] installed at epoch e
    pub last_rotation: u64,
    pub msgs: BTreeMap<(Vec<u8>, Vec<u8>), MsgStatus>,
    pub owner: ScAddress,
    pub operator: ScAddress,
    /// every signer-set hash ever computed for this gateway (installed or rejected)
    pub seen_hashes: Vec<[u8; 32]>,
}

pub fn well_formed(s: &MSigners) -> Result<(), &'static str> {
    if s.signers.is_empty() {
        return Err("malformed:empty");
    }
    for w in s.signers.windows(2) {
        if w[0].key >= w[1].key {
            return Err("malformed:order");
        }
    }
    if s.signers.iter().any(|x| x.weight == 0) {
        return Err("malformed:zero-weight");
    }
    let total = match s.total_weight() {
        Some(t) => t,
        None => return Err("malformed:overflow"),
    };
    if s.threshold == 0 {
        return Err("malformed:zero-threshold");
    }
    if s.threshold > total {
        return Err("malformed:threshold>total");
    }
    Ok(())
}

impl GwModel {
    pub fn epoch(&self) -> u64 {
        self.sets.len() as u64
    }

    pub fn epoch_of(&self, s: &MSigners) -> Option<u64> {
        self.sets.iter().position(|x| x == s).map(|i| i as u64 + 1)
    }

    pub fn note_hash(&mut self, h: [u8; 32]) {
        if !self.seen_hashes.contains(&h) {
            self.seen_hashes.push(h);
        }
    }

    /// Expectation for proof validation (shared by approve / rotate / validate_proof).
    pub fn expect_proof(&self, p: &ProofPlan) -> Must {
        let e = match self.epoch_of(&p.declared) {
            Some(e) => e,
            None => return Must::Fail("unknown-set"),
        };
        if self.epoch() - e > self.retention {
            return Must::Fail("retention");
        }
        let mut v: u128 = 0;
        let mut any_invalid = false;
        for (i, s) in p.slots.iter().enumerate() {
            match s {
                SlotSig::Valid(_) => v = v.saturating_add(p.declared.signers[i].weight),
                SlotSig::Invalid(_) => any_invalid = true,
                SlotSig::None => {}
            }
        }
        if v < p.declared.threshold {
            return Must::Fail("weight");
        }
        if any_invalid {
            return Must::Either("enough-weight-plus-invalid-signature");
        }
        Must::Succeed
    }

    pub fn is_latest(&self, p: &ProofPlan) -> bool {
        self.epoch_of(&p.declared) == Some(self.epoch())
    }

    pub fn expect_approve(&self, msgs: &[MMessage], p: &ProofPlan) -> Must {
        match self.expect_proof(p) {
            Must::Fail(r) => Must::Fail(r),
            other => {
                if msgs.is_empty() {
                    Must::Fail("empty-batch")
                } else {
                    other
                }
            }
        }
    }

    /// Apply a successful approval; returns the messages that must be announced, in order.
    pub fn apply_approve(&mut self, msgs: &[MMessage]) -> Vec<MMessage> {
        let mut newly = Vec::new();
        for m in msgs {
            let k = (m.source_chain.clone(), m.message_id.clone());
            if !self.msgs.contains_key(&k) {
                self.msgs.insert(k, MsgStatus::Approved(m.clone()));
                newly.push(m.clone());
            }
        }
        newly
    }

    /// Would consuming (as `m.contract`) succeed in marking the message executed?
    pub fn consumable(&self, m: &MMessage) -> bool {
        matches!(self.msgs.get(&(m.source_chain.clone(), m.message_id.clone())),
            Some(MsgStatus::Approved(a)) if a == m)
    }

    pub fn apply_consume(&mut self, m: &MMessage) {
        self.msgs.insert(
            (m.source_chain.clone(), m.message_id.clone()),
            MsgStatus::Executed,
        );
    }

    pub fn expect_rotate(
        &self,
        cand: &MSigners,
        p: &ProofPlan,
        bypass: bool,
        operator_authorised: bool,
        now: u64,
    ) -> Must {
        if bypass && !operator_authorised {
            return Must::Fail("operator-auth");
        }
        let pe = self.expect_proof(p);
        if let Must::Fail(r) = pe {
            return Must::Fail(r);
        }
        if !bypass && !self.is_latest(p) {
            return Must::Fail("not-latest");
        }
        if let Err(r) = well_formed(cand) {
            return Must::Fail(r);
        }
        if !bypass && now.wrapping_sub(self.last_rotation) < self.delay {
            return Must::Fail("delay");
        }
        if self.epoch_of(cand).is_some() {
            return Must::Fail("duplicate");
        }
        if cand.signers[0].key == [0u8; 32] {
            return Must::Either("all-zero-first-key");
        }
        pe
    }

    pub fn apply_rotate(&mut self, cand: &MSigners, now: u64) {
        self.sets.push(cand.clone());
        self.last_rotation = now;
    }
}

// ------------------------------------------------------------------ SDK conversions

pub fn sdk_signers(env: &Env, s: &MSigners) -> WeightedSigners {
    let mut v = SVec::new(env);
    for x in &s.signers {
        v.push_back(WeightedSigner {
            signer: BytesN::from_array(env, &x.key),
            weight: x.weight,
        });
    }
    WeightedSigners {
        signers: v,
        threshold: s.threshold,
        nonce: BytesN::from_array(env, &s.nonce),
    }
}

pub fn sdk_proof(env: &Env, p: &ProofPlan) -> Proof {
    let mut v = SVec::new(env);
    for (i, x) in p.declared.signers.iter().enumerate() {
        let signature = match &p.slots[i] {
            SlotSig::None => ProofSignature::Unsigned,
            SlotSig::Valid(s) | SlotSig::Invalid(s) => {
                ProofSignature::Signed(BytesN::from_array(env, s))
            }
        };
        v.push_back(ProofSigner {
            signer: WeightedSigner {
                signer: BytesN::from_array(env, &x.key),
                weight: x.weight,
            },
            signature,
        });
    }
    Proof {
        signers: v,
        threshold: p.declared.threshold,
        nonce: BytesN::from_array(env, &p.declared.nonce),
    }
}

pub fn sdk_message(env: &Env, m: &MMessage) -> Message {
    Message {
        source_chain: SString::from_bytes(env, &m.source_chain),
        message_id: SString::from_bytes(env, &m.message_id),
        source_address: SString::from_bytes(env, &m.source_address),
        contract_address: addr_of(env, &m.contract),
        payload_hash: BytesN::from_array(env, &m.payload_hash),
    }
}

pub fn sdk_messages(env: &Env, ms: &[MMessage]) -> SVec<Message> {
    let mut v = SVec::new(env);
    for m in ms {
        v.push_back(sdk_message(env, m));
    }
    v
}

pub fn sstr(env: &Env, b: &[u8]) -> SString {
    SString::from_bytes(env, b)
}

pub fn sbytes(env: &Env, b: &[u8]) -> Bytes {
    Bytes::from_slice(env, b)
}

// ------------------------------------------------------------------ signer-set generation

pub fn gen_set(rng: &mut Rng, ring: &mut KeyRing, n: usize, weights: &[u128], threshold: u128) -> MSigners {
    let mut keys: Vec<[u8; 32]> = (0..n).map(|_| ring.gen(rng)).collect();
    keys.sort();
    MSigners {
        signers: keys
            .into_iter()
            .enumerate()
            .map(|(i, key)| MSigner {
                key,
                weight: weights[i],
            })
            .collect(),
        threshold,
        nonce: rng.bytes32(),
    }
}

/// Random well-formed set with boundary-rich weights/thresholds.
pub fn gen_wellformed_set(rng: &mut Rng, ring: &mut KeyRing, max_n: usize) -> MSigners {
    // with room for more than 16 signers: a large set, half of the time with unit weights and a
    // threshold that takes at least 17 signatures to reach
    let big = max_n >= 17;
    let n = if big { 17 + rng.usize(max_n - 16) } else { 1 + rng.usize(max_n) };
    let many_needed = big && rng.chance(1, 2);
    let style = if many_needed { 0 } else { rng.below(6) };
    let weights: Vec<u128> = (0..n)
        .map(|i| match style {
            0 => 1,
            1 => 1 + rng.below(9) as u128,
            2 => 1u128 << 64,
            3 => u128::MAX / n as u128,
            4 => {
                // total exactly u128::MAX
                if i == 0 {
                    u128::MAX - (n as u128 - 1)
                } else {
                    1
                }
            }
            _ => 1 + (rng.next_u128() >> (rng.below(100) as u32)),
        })
        .collect();
    let weights = if style == 5 {
        // make sure no overflow
        let mut w = weights;
        let mut acc = 0u128;
        for x in w.iter_mut() {
            if acc.checked_add(*x).is_none() {
                *x = 1;
            }
            acc += *x;
        }
        w
    } else {
        weights
    };
    let total: u128 = weights.iter().sum();
    let threshold = match if many_needed { 5 } else { rng.below(5) } {
        5 => 17 + rng.usize(n - 16) as u128,
        0 => 1,
        1 => total,
        2 => {
            // weight of a random non-empty subset
            let mut t = 0u128;
            for w in &weights {
                if rng.chance(1, 2) {
                    t += *w;
                }
            }
            if t == 0 {
                weights[0]
            } else {
                t
            }
        }
        3 => (total / 2).max(1),
        _ => 1 + rng.next_u128() % total,
    };
    gen_set(rng, ring, n, &weights, threshold)
}

// ------------------------------------------------------------------ proof plans

pub fn digest_for(domain: &[u8; 32], declared: &MSigners, data_hash: &[u8; 32]) -> [u8; 32] {
    proof_digest(domain, &declared.hash(), data_hash)
}

/// Honest plan: the slots in `signing` carry the slot key's signature over the right digest.
pub fn plan_honest(
    ring: &KeyRing,
    domain: &[u8; 32],
    set: &MSigners,
    data_hash: &[u8; 32],
    signing: &[usize],
) -> ProofPlan {
    let d = digest_for(domain, set, data_hash);
    let slots = set
        .signers
        .iter()
        .enumerate()
        .map(|(i, s)| {
            if signing.contains(&i) {
                match ring.get(&s.key) {
                    Some(kp) => SlotSig::Valid(kp.sign(&d)),
                    None => SlotSig::None,
                }
            } else {
                SlotSig::None
            }
        })
        .collect();
    ProofPlan {
        declared: set.clone(),
        slots,
        desc: format!("honest{:?}", signing),
    }
}

pub fn all_slots(set: &MSigners) -> Vec<usize> {
    (0..set.signers.len()).collect()
}

/// A random subset whose weight reaches the threshold (minimal-ish: drop members while it holds).
pub fn sufficient_subset(rng: &mut Rng, set: &MSigners) -> Vec<usize> {
    let mut idx = all_slots(set);
    rng.shuffle(&mut idx);
    let mut chosen = idx.clone();
    for i in idx {
        let without: Vec<usize> = chosen.iter().cloned().filter(|x| *x != i).collect();
        let w: u128 = without
            .iter()
            .fold(0u128, |a, j| a.saturating_add(set.signers[*j].weight));
        if w >= set.threshold && rng.chance(3, 4) {
            chosen = without;
        }
    }
    chosen.sort();
    chosen
}

/// A subset that misses the threshold by as little as possible: a sufficient minimal subset
/// minus one member (None when the set cannot produce an insufficient non-trivial subset).
pub fn one_short_subset(rng: &mut Rng, set: &MSigners) -> Vec<usize> {
    let mut idx = all_slots(set);
    rng.shuffle(&mut idx);
    // greedy minimal sufficient
    let mut chosen = idx.clone();
    for i in idx {
        let without: Vec<usize> = chosen.iter().cloned().filter(|x| *x != i).collect();
        let w: u128 = without
            .iter()
            .fold(0u128, |a, j| a.saturating_add(set.signers[*j].weight));
        if w >= set.threshold {
            chosen = without;
        }
    }
    // chosen is minimal: removing any member drops below threshold
    let drop = rng.usize(chosen.len());
    chosen.remove(drop);
    chosen.sort();
    chosen
}

// ------------------------------------------------------------------ real gateway handle

pub struct Gw {
    pub addr: Address,
    pub sc: ScAddress,
    pub model: GwModel,
}

pub fn gateway_ctor_args(
    env: &Env,
    owner: &Address,
    operator: &Address,
    domain: &[u8; 32],
    delay: u64,
    retention: u64,
    initial: &[MSigners],
) -> (Address, Address, BytesN<32>, u64, u64, SVec<WeightedSigners>) {
    let mut v = SVec::new(env);
    for s in initial {
        v.push_back(sdk_signers(env, s));
    }
    (
        owner.clone(),
        operator.clone(),
        BytesN::from_array(env, domain),
        delay,
        retention,
        v,
    )
}

impl Gw {
    /// Deploy a gateway with valid arguments (set-up traffic).
    pub fn deploy(
        u: &mut U,
        owner: &Address,
        operator: &Address,
        domain: [u8; 32],
        delay: u64,
        retention: u64,
        initial: &[MSigners],
    ) -> Gw {
        let args = gateway_ctor_args(&u.env, owner, operator, &domain, delay, retention, initial);
        let addr = u.env.register(AxelarGateway, args);
        u.skip_events();
        let mut model = GwModel {
            domain,
            retention,
            delay,
            sets: initial.to_vec(),
            last_rotation: u.time(),
            msgs: BTreeMap::new(),
            owner: sc_addr(owner),
            operator: sc_addr(operator),
            seen_hashes: Vec::new(),
        };
        for s in initial {
            model.note_hash(s.hash());
        }
        Gw {
            sc: sc_addr(&addr),
            addr,
            model,
        }
    }

    pub fn client<'a>(&self, env: &Env) -> AxelarGatewayClient<'a> {
        AxelarGatewayClient::new(env, &self.addr)
    }

    /// Expected `message_approved` event for a message.
    pub fn ev_approved(&self, m: &MMessage) -> Ev {
        Ev {
            contract: self.sc.clone(),
            topics: vec![sv_sym("message_approved"), m.to_scval()],
            data: ScVal::Void,
        }
    }
    pub fn ev_executed(&self, m: &MMessage) -> Ev {
        Ev {
            contract: self.sc.clone(),
            topics: vec![sv_sym("message_executed"), m.to_scval()],
            data: ScVal::Void,
        }
    }
    pub fn ev_rotated(&self, epoch: u64, hash: &[u8; 32]) -> Ev {
        Ev {
            contract: self.sc.clone(),
            topics: vec![sv_sym("signers_rotated"), sv_u64(epoch), sv_bytes(hash)],
            data: ScVal::Void,
        }
    }

    /// Honest approval by the newest set with all signers (set-up traffic for other properties).
    /// Returns false if the gateway refused.
    pub fn approve_honest(&mut self, u: &mut U, ring: &KeyRing, msgs: &[MMessage]) -> bool {
        let set = self.model.sets.last().unwrap().clone();
        let dh = approve_data_hash(msgs);
        let plan = plan_honest(ring, &self.model.domain, &set, &dh, &all_slots(&set));
        let addr = self.addr.clone();
        let r = {
            let env = &u.env;
            let c = AxelarGatewayClient::new(env, &addr);
            flat(c.try_approve_messages(&sdk_messages(env, msgs), &sdk_proof(env, &plan)))
        };
        u.skip_events();
        if r.is_ok() {
            self.model.apply_approve(msgs);
            true
        } else {
            false
        }
    }

    // ---------------------------------------------------------------- queries vs model

    /// Epoch and both lookups against the model, over every epoch and every hash ever seen.
    pub fn check_lookups(&self, u: &mut U) -> Option<String> {
        let env = u.env.clone();
        let c = AxelarGatewayClient::new(&env, &self.addr);
        let ep = c.epoch();
        if ep != self.model.epoch() {
            return Some(format!("epoch()={} model={}", ep, self.model.epoch()));
        }
        for e in 0..=self.model.epoch() + 1 {
            let got = flat(c.try_signers_hash_by_epoch(&e)).ok().map(|h| h.to_array());
            let want = if e >= 1 && e <= self.model.epoch() {
                Some(self.model.sets[(e - 1) as usize].hash())
            } else {
                None
            };
            if got != want {
                return Some(format!(
                    "signers_hash_by_epoch({}) got={:?} want={:?}",
                    e,
                    got.map(|x| hex(&x)),
                    want.map(|x| hex(&x))
                ));
            }
        }
        for h in &self.model.seen_hashes {
            let got = flat(c.try_epoch_by_signers_hash(&BytesN::from_array(&env, h))).ok();
            let want = self
                .model
                .sets
                .iter()
                .position(|s| s.hash() == *h)
                .map(|i| i as u64 + 1);
            if got != want {
                return Some(format!(
                    "epoch_by_signers_hash({}) got={:?} want={:?}",
                    hex(h),
                    got,
                    want
                ));
            }
        }
        None
    }

    /// Status queries for one key with a given candidate content.
    pub fn check_status(&self, u: &mut U, m: &MMessage) -> Option<String> {
        let env = u.env.clone();
        let c = AxelarGatewayClient::new(&env, &self.addr);
        let k = (m.source_chain.clone(), m.message_id.clone());
        let st = self.model.msgs.get(&k);
        let want_exec = matches!(st, Some(MsgStatus::Executed));
        let want_appr = matches!(st, Some(MsgStatus::Approved(a)) if a == m);
        let got_exec = c.is_message_executed(&sstr(&env, &m.source_chain), &sstr(&env, &m.message_id));
        let got_appr = c.is_message_approved(
            &sstr(&env, &m.source_chain),
            &sstr(&env, &m.message_id),
            &sstr(&env, &m.source_address),
            &addr_of(&env, &m.contract),
            &BytesN::from_array(&env, &m.payload_hash),
        );
        if got_exec != want_exec {
            return Some(format!(
                "is_message_executed({:?},{:?}) got={} want={}",
                lossy(&m.source_chain),
                lossy(&m.message_id),
                got_exec,
                want_exec
            ));
        }
        if got_appr != want_appr {
            return Some(format!(
                "is_message_approved({:?},{:?},..) got={} want={}",
                lossy(&m.source_chain),
                lossy(&m.message_id),
                got_appr,
                want_appr
            ));
        }
        None
    }
}

pub fn lossy(b: &[u8]) -> String {
    String::from_utf8_lossy(b).to_string()
}

// ------------------------------------------------------------------ verdict-bearing calls

impl Gw {
    pub fn do_approve(&self, u: &mut U, msgs: &[MMessage], plan: &ProofPlan) -> CallOut<()> {
        let addr = self.addr.clone();
        let msgs = msgs.to_vec();
        let plan = plan.clone();
        u.call(Auth::Nobody, &move |env: &Env| {
            let c = AxelarGatewayClient::new(env, &addr);
            flat(c.try_approve_messages(&sdk_messages(env, &msgs), &sdk_proof(env, &plan)))
        })
    }

    pub fn do_validate_proof(&self, u: &mut U, data_hash: &[u8; 32], plan: &ProofPlan) -> CallOut<bool> {
        let addr = self.addr.clone();
        let dh = *data_hash;
        let plan = plan.clone();
        u.call(Auth::Nobody, &move |env: &Env| {
            let c = AxelarGatewayClient::new(env, &addr);
            flat(c.try_validate_proof(&BytesN::from_array(env, &dh), &sdk_proof(env, &plan)))
        })
    }

    pub fn do_rotate(
        &self,
        u: &mut U,
        cand: &MSigners,
        plan: &ProofPlan,
        bypass: bool,
        auth: Auth,
    ) -> CallOut<()> {
        let addr = self.addr.clone();
        let cand = cand.clone();
        let plan = plan.clone();
        u.call(auth, &move |env: &Env| {
            let c = AxelarGatewayClient::new(env, &addr);
            flat(c.try_rotate_signers(&sdk_signers(env, &cand), &sdk_proof(env, &plan), &bypass))
        })
    }

    /// Consume as `m.contract` under `auth`.
    pub fn do_validate_message(&self, u: &mut U, m: &MMessage, auth: Auth) -> CallOut<bool> {
        let addr = self.addr.clone();
        let m = m.clone();
        u.call(auth, &move |env: &Env| {
            let c = AxelarGatewayClient::new(env, &addr);
            flat(c.try_validate_message(
                &addr_of(env, &m.contract),
                &sstr(env, &m.source_chain),
                &sstr(env, &m.message_id),
                &sstr(env, &m.source_address),
                &BytesN::from_array(env, &m.payload_hash),
            ))
        })
    }

    /// Honest non-bypass rotation by the newest set, all signers (set-up traffic elsewhere).
    pub fn rotate_honest(&mut self, u: &mut U, ring: &KeyRing, cand: &MSigners) -> bool {
        let set = self.model.sets.last().unwrap().clone();
        let plan = plan_honest(
            ring,
            &self.model.domain,
            &set,
            &cand.rotation_data_hash(),
            &all_slots(&set),
        );
        let out = self.do_rotate(u, cand, &plan, false, Auth::Nobody);
        self.model.note_hash(cand.hash());
        if out.ok() {
            let now = u.time();
            self.model.apply_rotate(cand, now);
            true
        } else {
            false
        }
    }
}
