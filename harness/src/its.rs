//! Interchain-token-service fixture: gateway + gas service + ITS (constructed with the native
//! marker hash, so deployed tokens run the tree's InterchainToken code), a by-value reference
//! model (trusted chains, token registry, balances) and call helpers.

use crate::gw::*;
use crate::oracle::*;
use crate::probes::its_exec::{ProbeExecutable, ProbeExecutableClient};
use crate::rng::Rng;
use crate::tok::*;
use crate::univ::*;
use axelar_gas_service::AxelarGasService;
use axelar_gateway::executable::AxelarExecutableClient;
use axelar_soroban_std::types::Token;
use interchain_token::{InterchainToken, InterchainTokenClient};
use interchain_token_service::types::TokenManagerType;
use interchain_token_service::{InterchainTokenService, InterchainTokenServiceClient};
use soroban_sdk::xdr::{LedgerKey, ScAddress, ScVal};
use soroban_sdk::{Address, Bytes, BytesN, Env};
use std::collections::{BTreeMap, BTreeSet};

pub const HUB_CHAIN: &[u8] = b"axelar";

#[derive(Clone, Debug, PartialEq, Eq)]
pub enum TokMode {
    /// deployed by the service: burn on send, mint on receive
    Native,
    /// registered canonical token: lock on send, release on receive
    Lock,
}

#[derive(Clone, Debug)]
pub struct TokenRec {
    pub id: [u8; 32],
    pub addr: Address,
    pub mode: TokMode,
    pub name: Vec<u8>,
    pub symbol: Vec<u8>,
    pub decimals: u32,
    /// false for tokens from which the service revoked its own minting right
    pub its_can_mint: bool,
    pub minter: Option<Address>,
}

#[derive(Clone)]
pub struct ItsModel {
    pub chain_name: Vec<u8>,
    pub hub_address: Vec<u8>,
    pub trusted: BTreeSet<Vec<u8>>,
    pub ever_trusted: BTreeSet<Vec<u8>>,
    pub tokens: BTreeMap<[u8; 32], TokenRec>,
    /// (token address, holder) -> balance, for every pair the monitor tracks
    pub bal: BTreeMap<(Address, Address), i128>,
}

impl ItsModel {
    pub fn balance(&self, t: &Address, h: &Address) -> i128 {
        *self.bal.get(&(t.clone(), h.clone())).unwrap_or(&0)
    }
    pub fn add(&mut self, t: &Address, h: &Address, d: i128) {
        *self.bal.entry((t.clone(), h.clone())).or_insert(0) += d;
    }
}

pub struct ItsWorld {
    pub u: U,
    pub ring: KeyRing,
    pub g: Gw,
    pub gs: Address,
    pub gs_collector: Address,
    pub its: Address,
    pub its_sc: ScAddress,
    pub owner: Address,
    pub model: ItsModel,
    pub gas: Tok,
    pub users: Vec<Address>,
    pub stranger: Address,
    pub app: Address, // ProbeExecutable
    pub msg_ctr: u64,
}

pub fn valid_metadata(env: &Env) -> soroban_token_sdk::metadata::TokenMetadata {
    metadata(env, b"Primer", b"PRM", 7)
}

impl ItsWorld {
    pub fn new(rng: &mut Rng, chain_name: &[u8], hub_address: &[u8], n_users: usize) -> ItsWorld {
        Self::new_at(rng, chain_name, hub_address, n_users, 100, 1_000_000)
    }

    /// Same fixture at another ledger sequence / timestamp (used for determinism twins).
    pub fn new_at(rng: &mut Rng, chain_name: &[u8], hub_address: &[u8], n_users: usize, seq: u32, time: u64) -> ItsWorld {
        let mut u = U::with_ledger(seq, time);
        let mut ring = KeyRing::default();
        let g_owner = u.principal();
        let g_operator = u.principal();
        let set = gen_wellformed_set(rng, &mut ring, 2);
        let g = Gw::deploy(&mut u, &g_owner, &g_operator, rng.bytes32(), 0, 1, &[set]);
        let gs_owner = u.principal();
        let gs_collector = u.principal();
        let gs = u.env.register(AxelarGasService, (&gs_owner, &gs_collector));
        let owner = u.principal();
        let env = u.env.clone();
        let its = env.register(
            InterchainTokenService,
            (&owner, &g.addr, &gs, sstr(&env, hub_address), sstr(&env, chain_name), native_hash(&env)),
        );
        let app = env.register(ProbeExecutable, (&its,));
        let admin = u.principal();
        let gas = make_token(&mut u, TokKind::Sac, &admin, rng);
        let users: Vec<Address> = (0..n_users).map(|_| u.principal()).collect();
        let stranger = u.principal();
        u.skip_events();
        ItsWorld {
            its_sc: sc_addr(&its),
            u,
            ring,
            g,
            gs,
            gs_collector,
            its,
            owner,
            model: ItsModel {
                chain_name: chain_name.to_vec(),
                hub_address: hub_address.to_vec(),
                trusted: BTreeSet::new(),
                ever_trusted: BTreeSet::new(),
                tokens: BTreeMap::new(),
                bal: BTreeMap::new(),
            },
            gas,
            users,
            stranger,
            app,
            msg_ctr: 0,
        }
    }

    pub fn client<'a>(&self, env: &Env) -> InterchainTokenServiceClient<'a> {
        InterchainTokenServiceClient::new(env, &self.its)
    }

    // ------------------------------------------------------------ set-up helpers

    /// Trust a chain (set-up traffic).
    pub fn trust(&mut self, chain: &[u8]) {
        let (its, c) = (self.its.clone(), chain.to_vec());
        self.u.setup(move |env| {
            InterchainTokenServiceClient::new(env, &its).set_trusted_chain(&sstr(env, &c));
        });
        self.model.trusted.insert(chain.to_vec());
        self.model.ever_trusted.insert(chain.to_vec());
    }

    pub fn fund_gas(&mut self, who: &Address, amount: i128) {
        let g = self.gas.clone();
        mint(&mut self.u, &g, who, amount);
        self.model.add(&g.addr, who, amount);
    }

    /// The address the service will deploy the token with this id at (host derivation).
    pub fn predicted_token_address(&self, id: &[u8; 32]) -> Address {
        self.u
            .env
            .deployer()
            .with_address(self.its.clone(), BytesN::from_array(&self.u.env, id))
            .deployed_address()
    }

    /// Address the service registered for `id` (falls back to the host derivation).
    pub fn token_addr(&mut self, id: &[u8; 32]) -> Address {
        match self.registry_entry(id) {
            Some((a, _)) => a,
            None => self.predicted_token_address(id),
        }
    }

    /// Make the address for `id` dispatch to the tree's native InterchainToken once deployed.
    pub fn prime_for(&mut self, id: &[u8; 32]) {
        let addr = self.predicted_token_address(id);
        if self.u.has_instance(&addr) {
            return;
        }
        let env = self.u.env.clone();
        let args = (self.its.clone(), None::<Address>, BytesN::from_array(&env, id), valid_metadata(&env));
        self.u.prime(&addr, InterchainToken, args);
    }

    /// Token id the service's own view functions give for (deployer, salt).
    pub fn view_token_id(&mut self, deployer: &Address, salt: &[u8; 32]) -> [u8; 32] {
        let (its, d, s) = (self.its.clone(), deployer.clone(), *salt);
        self.u.query(move |env| {
            let c = InterchainTokenServiceClient::new(env, &its);
            let ds = c.interchain_token_deploy_salt(&d, &BytesN::from_array(env, &s));
            let zero = addr_of(env, &ZERO_ACCOUNT);
            c.interchain_token_id(&zero, &ds).to_array()
        })
    }

    pub fn view_canonical_id(&mut self, token: &Address) -> [u8; 32] {
        let (its, t) = (self.its.clone(), token.clone());
        self.u.query(move |env| {
            let c = InterchainTokenServiceClient::new(env, &its);
            let ds = c.canonical_token_deploy_salt(&t);
            let zero = addr_of(env, &ZERO_ACCOUNT);
            c.interchain_token_id(&zero, &ds).to_array()
        })
    }

    /// After a deployment failed unexpectedly: contract instances the call tried to create at
    /// addresses that were not primed (found in the recording footprint). Primes them; returns
    /// how many were primed so the caller can retry once.
    pub fn prime_from_footprint(&mut self) -> usize {
        let keys: Vec<ScAddress> = self
            .u
            .env
            .host()
            .with_mut_storage(|s| {
                let mut v = Vec::new();
                let budget = soroban_env_host::budget::Budget::default();
                for (k, _) in s.footprint.0.iter(&budget)? {
                    if let LedgerKey::ContractData(cd) = k.as_ref() {
                        if matches!(cd.key, ScVal::LedgerKeyContractInstance) {
                            v.push(cd.contract.clone());
                        }
                    }
                }
                Ok(v)
            })
            .unwrap_or_default();
        let mut n = 0;
        for sc in keys {
            let a = addr_of(&self.u.env, &sc);
            if self.u.has_instance(&a) || self.u.primed.contains(&sc) {
                continue;
            }
            let env = self.u.env.clone();
            let args = (self.its.clone(), None::<Address>, BytesN::from_array(&env, &[9u8; 32]), valid_metadata(&env));
            self.u.prime(&a, InterchainToken, args);
            n += 1;
        }
        n
    }

    // ------------------------------------------------------------ verdict-bearing calls

    pub fn do_set_trusted(&mut self, chain: &[u8], add: bool, auth: Auth) -> CallOut<()> {
        let (its, c) = (self.its.clone(), chain.to_vec());
        self.u.call(auth, &move |env: &Env| {
            let cl = InterchainTokenServiceClient::new(env, &its);
            if add {
                flat(cl.try_set_trusted_chain(&sstr(env, &c)))
            } else {
                flat(cl.try_remove_trusted_chain(&sstr(env, &c)))
            }
        })
    }

    pub fn do_deploy(
        &mut self,
        caller: &Address,
        salt: &[u8; 32],
        name: &[u8],
        symbol: &[u8],
        decimals: u32,
        supply: i128,
        minter: Option<Address>,
        auth: Auth,
    ) -> CallOut<[u8; 32]> {
        let id = self.view_token_id(caller, salt);
        self.prime_for(&id);
        let (its, c, s, n, sy, m) = (self.its.clone(), caller.clone(), *salt, name.to_vec(), symbol.to_vec(), minter.clone());
        let f = move |env: &Env| {
            let cl = InterchainTokenServiceClient::new(env, &its);
            flat(cl.try_deploy_interchain_token(&c, &BytesN::from_array(env, &s), &metadata(env, &n, &sy, decimals), &supply, &m)).map(|b| b.to_array())
        };
        let o = self.u.call(auth.clone(), &f);
        if !o.ok() && self.prime_from_footprint() > 0 {
            return self.u.call(auth, &f);
        }
        o
    }

    /// The authorisation forest the service asks for when `caller` deploys with these arguments
    /// (recorded, nothing kept).
    pub fn record_deploy(&mut self, caller: &Address, salt: &[u8; 32], name: &[u8], symbol: &[u8], decimals: u32, supply: i128, minter: Option<Address>) -> Vec<(soroban_sdk::xdr::ScAddress, soroban_sdk::xdr::SorobanAuthorizedInvocation)> {
        let id = self.view_token_id(caller, salt);
        self.prime_for(&id);
        let (its, c, s, n, sy, m) = (self.its.clone(), caller.clone(), *salt, name.to_vec(), symbol.to_vec(), minter.clone());
        let f = move |env: &Env| {
            let cl = InterchainTokenServiceClient::new(env, &its);
            flat(cl.try_deploy_interchain_token(&c, &BytesN::from_array(env, &s), &metadata(env, &n, &sy, decimals), &supply, &m)).map(|b| b.to_array())
        };
        let (_, forest) = self.u.record(&f);
        forest
    }

    pub fn do_register_canonical(&mut self, token: &Address) -> CallOut<[u8; 32]> {
        let (its, t) = (self.its.clone(), token.clone());
        self.u.call(Auth::Nobody, &move |env: &Env| {
            flat(InterchainTokenServiceClient::new(env, &its).try_register_canonical_token(&t)).map(|b| b.to_array())
        })
    }

    pub fn do_transfer(
        &mut self,
        caller: &Address,
        id: &[u8; 32],
        dest_chain: &[u8],
        dest_addr: &[u8],
        amount: i128,
        data: Option<Vec<u8>>,
        gas_token: &Address,
        gas_amount: i128,
        auth: Auth,
    ) -> CallOut<()> {
        let (its, c, i, dc, da, d, gt) = (self.its.clone(), caller.clone(), *id, dest_chain.to_vec(), dest_addr.to_vec(), data.clone(), gas_token.clone());
        self.u.call(auth, &move |env: &Env| {
            let cl = InterchainTokenServiceClient::new(env, &its);
            flat(cl.try_interchain_transfer(
                &c,
                &BytesN::from_array(env, &i),
                &sstr(env, &dc),
                &sbytes(env, &da),
                &amount,
                &d.as_ref().map(|x| sbytes(env, x)),
                &Token { address: gt.clone(), amount: gas_amount },
            ))
        })
    }

    pub fn do_deploy_remote(&mut self, caller: &Address, salt: &[u8; 32], dest_chain: &[u8], gas_token: &Address, gas_amount: i128, auth: Auth) -> CallOut<[u8; 32]> {
        let (its, c, s, dc, gt) = (self.its.clone(), caller.clone(), *salt, dest_chain.to_vec(), gas_token.clone());
        self.u.call(auth, &move |env: &Env| {
            let cl = InterchainTokenServiceClient::new(env, &its);
            flat(cl.try_deploy_remote_interchain_token(&c, &BytesN::from_array(env, &s), &sstr(env, &dc), &Token { address: gt.clone(), amount: gas_amount })).map(|b| b.to_array())
        })
    }

    pub fn do_deploy_remote_canonical(&mut self, token: &Address, dest_chain: &[u8], spender: &Address, gas_token: &Address, gas_amount: i128, auth: Auth) -> CallOut<[u8; 32]> {
        let (its, t, sp, dc, gt) = (self.its.clone(), token.clone(), spender.clone(), dest_chain.to_vec(), gas_token.clone());
        self.u.call(auth, &move |env: &Env| {
            let cl = InterchainTokenServiceClient::new(env, &its);
            flat(cl.try_deploy_remote_canonical_token(&t, &sstr(env, &dc), &sp, &Token { address: gt.clone(), amount: gas_amount })).map(|b| b.to_array())
        })
    }

    /// Deliver a payload to the service (anyone may call execute).
    pub fn do_execute(&mut self, chain: &[u8], id: &[u8], src: &[u8], payload: &[u8]) -> CallOut<()> {
        let (its, c, i, s, p) = (self.its.clone(), chain.to_vec(), id.to_vec(), src.to_vec(), payload.to_vec());
        let f = move |env: &Env| {
            let cl = AxelarExecutableClient::new(env, &its);
            flat(cl.try_execute(&sstr(env, &c), &sstr(env, &i), &sstr(env, &s), &sbytes(env, &p)))
        };
        let o = self.u.call(Auth::Nobody, &f);
        if !o.ok() && self.prime_from_footprint() > 0 {
            return self.u.call(Auth::Nobody, &f);
        }
        o
    }

    /// Approve (honestly) a message for the service carrying `payload`.
    pub fn approve_for_its(&mut self, chain: &[u8], id: &[u8], src: &[u8], payload: &[u8]) -> bool {
        let m = MMessage {
            source_chain: chain.to_vec(),
            message_id: id.to_vec(),
            source_address: src.to_vec(),
            contract: self.its_sc.clone(),
            payload_hash: keccak(payload),
        };
        self.g.approve_honest(&mut self.u, &self.ring, &[m])
    }

    pub fn fresh_id(&mut self) -> Vec<u8> {
        self.msg_ctr += 1;
        format!("0xmsg-{}", self.msg_ctr).into_bytes()
    }

    // ------------------------------------------------------------ observation

    pub fn registry_entry(&mut self, id: &[u8; 32]) -> Option<(Address, u32)> {
        let (its, i) = (self.its.clone(), *id);
        self.u.query(move |env| {
            let cl = InterchainTokenServiceClient::new(env, &its);
            let b = BytesN::from_array(env, &i);
            match cl.try_token_address(&b) {
                Ok(Ok(a)) => Some((a, cl.token_manager_type(&b) as u32)),
                _ => None,
            }
        })
    }

    pub fn is_trusted(&mut self, chain: &[u8]) -> bool {
        let (its, c) = (self.its.clone(), chain.to_vec());
        self.u.query(move |env| InterchainTokenServiceClient::new(env, &its).is_trusted_chain(&sstr(env, &c)))
    }

    /// Compare every tracked balance with the model.
    pub fn check_balances(&mut self) -> Option<String> {
        let pairs: Vec<((Address, Address), i128)> = self.model.bal.iter().map(|(k, v)| (k.clone(), *v)).collect();
        for ((t, h), want) in pairs {
            let got = balance(&mut self.u, &t, &h);
            if got != want {
                let who = if h == self.its { "service" } else if h == self.gs { "gas-service" } else { "user" };
                return Some(format!("{} balance {} != model {}", who, got, want));
            }
        }
        None
    }

    /// Registry and trusted set against the model (write-once sweep).
    pub fn check_registry(&mut self) -> Option<String> {
        let toks: Vec<TokenRec> = self.model.tokens.values().cloned().collect();
        for t in toks {
            match self.registry_entry(&t.id) {
                None => return Some(format!("registered id {} no longer resolves", hex(&t.id[..6]))),
                Some((a, ty)) => {
                    if a != t.addr {
                        return Some(format!("token_address of id {} changed", hex(&t.id[..6])));
                    }
                    let want = if t.mode == TokMode::Native { 0 } else { 2 };
                    if ty != want {
                        return Some(format!("token_manager_type of id {} is {}, registered as {}", hex(&t.id[..6]), ty, want));
                    }
                }
            }
        }
        let chains: Vec<Vec<u8>> = self.model.ever_trusted.iter().cloned().collect();
        for c in chains {
            let got = self.is_trusted(&c);
            if got != self.model.trusted.contains(&c) {
                return Some(format!("is_trusted_chain({:?}) = {}, model {}", lossy(&c), got, !got));
            }
        }
        None
    }
}

/// XDR form of an address as the service puts it into messages.
pub fn addr_bytes(a: &Address) -> Vec<u8> {
    scaddr_xdr(&sc_addr(a))
}
