pub mod c01;
pub mod c02;
pub mod c03;
pub mod c04;
pub mod c05;
pub mod c06;
pub mod c07;
pub mod c08;
pub mod c09;
pub mod c10;
pub mod c11;
pub mod c12;
pub mod c13;
pub mod c14;
pub mod c15;
pub mod c16;
pub mod c17;
pub mod c18;
pub mod selftest;

use crate::report::Report;
use crate::Ctx;

pub fn dispatch(ctx: &Ctx, rep: &mut Report) -> bool {
    match ctx.prop.as_str() {
        "C01" => c01::run(ctx, rep),
        "C02" => c02::run(ctx, rep),
        "C03" => c03::run(ctx, rep),
        "C04" => c04::run(ctx, rep),
        "C05" => c05::run(ctx, rep),
        "C06" => c06::run(ctx, rep),
        "C07" => c07::run(ctx, rep),
        "C08" => c08::run(ctx, rep),
        "C09" => c09::run(ctx, rep),
        "C10" => c10::run(ctx, rep),
        "C11" => c11::run(ctx, rep),
        "C12" => c12::run(ctx, rep),
        "C13" => c13::run(ctx, rep),
        "C14" => c14::run(ctx, rep),
        "C15" => c15::run(ctx, rep),
        "C16" => c16::run(ctx, rep),
        "C17" => c17::run(ctx, rep),
        "C18" => c18::run(ctx, rep),
        _ => return false,
    }
    true
}
