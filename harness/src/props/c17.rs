//! C17 — only current operators act via the operators contract; calls forward intact.
//! Operator-set model; probe target that records every call and returns a configured value or
//! fails on demand; return value and recorded call compared as XDR values.

use crate::oracle::*;
use crate::probes::target::{ProbeTarget, ProbeTargetClient};
use crate::report::Report;
use crate::rng::Rng;
use crate::univ::*;
use crate::Ctx;
use axelar_operators::{AxelarOperators, AxelarOperatorsClient};
use serde_json::json;
use soroban_sdk::xdr::ScVal;
use soroban_sdk::{Address, Env, IntoVal, Symbol, TryFromVal, TryIntoVal, Val, Vec as SVec};
use std::collections::BTreeSet;

const REQUIRED: &[&str] = &[
    "add-absent",
    "add-present",
    "remove-present",
    "remove-absent",
    "add-not-owner",
    "remove-not-owner",
    "execute-member",
    "execute-former-member",
    "execute-never-member",
    "execute-member-no-auth",
    "execute-member-stranger-auth",
    "execute-member-owner-auth",
    "execute-member-own-other-arguments-auth",
    "execute-target-fails",
    "transfer-ownership",
    "advance-ledger",
];

fn gen_val(rng: &mut Rng, addrs: &[Address]) -> ScVal {
    match rng.below(8) {
        0 => ScVal::Void,
        1 => sv_u32(rng.next_u64() as u32),
        2 => sv_i128(-(rng.next_u64() as i128) * 1_000_000_007),
        3 => sv_addr(&sc_addr(rng.pick(addrs))),
        4 => sv_vec(vec![sv_u32(1), sv_str(b"two"), sv_vec(vec![])]),
        5 => sv_struct(vec![("a", sv_u64(7)), ("b", sv_bytes(&rng.bytes(5)))]),
        6 => sv_bytes(&rng.bytes_upto(70)),
        _ => sv_bool(rng.chance(1, 2)),
    }
}

fn to_val(env: &Env, v: &ScVal) -> Val {
    Val::try_from_val(env, v).expect("scval to val")
}

pub fn run(ctx: &Ctx, rep: &mut Report) {
    let total = ctx.universes(1920, 80000);
    for uni in ctx.my_universes(total) {
        let mut rng = ctx.rng_for(uni);
        rep.begin_universe(uni);
        if uni == 0 {
            // once per run: the history recorded under the pinned version, continued by the current code
            crate::legacy::run(rep, "C17");
        }
        let mut u = U::new();
        u.blanket_ok = true;
        let mut owner = u.principal();
        let mut former_owners: Vec<Address> = Vec::new();
        let ops_c = u.env.register(AxelarOperators, (&owner,));
        let target = u.env.register(ProbeTarget, ());
        let other_target = u.env.register(ProbeTarget, ());
        u.skip_events();
        // five accounts, and the target contract itself (an operator may be the contract it calls)
        let mut cands: Vec<Address> = (0..5).map(|_| u.principal()).collect();
        cands.push(target.clone());
        // and the contract's first owner (an owner may appoint itself)
        cands.push(owner.clone());
        // and the account address sharing its 32 bytes with candidate #0 (a contract address): it
        // can be made a member, but its membership is not #0's; nobody can sign for it here
        let twin_idx = cands.len();
        cands.push(twin_of(&u.env, &cands[0]));
        let stranger = u.principal();
        // entry points of the operators contract this workload does not know
        let unknown_fns = unknown_entry_points("axelar-operators", &["__constructor", "add_operator", "execute", "is_operator", "remove_operator", "run_migration", "owner", "transfer_ownership", "upgrade", "migrate", "version"]);
        let mut members: BTreeSet<usize> = BTreeSet::new();
        let mut ever: BTreeSet<usize> = BTreeSet::new();
        let mut log_len: u32 = 0;
        let mut alive = true;
        let mut crowded = false;
        for _ in 0..40 {
            if !alive {
                break;
            }
            if rng.chance(1, 10) {
                let d = rng.ledger_jump();
                if u.advance(d) {
                    rep.step(format!("ledger advances by {}", d));
                    rep.count("advance-ledger");
                }
            }
            if rng.chance(1, 25) && u.upgrade_and_migrate(&ops_c).is_ok() {
                rep.step("the operators contract is upgraded to the same code and migrated".into());
                rep.count("upgrade-and-migrate");
            }
            // once in a while the owner enrols 18 further operators in one go (they take no other
            // part): what add, remove and execute do for the candidates must not depend on how many
            // operators there are
            if !crowded && rng.chance(1, 30) {
                let fillers: Vec<Address> = (0..18).map(|_| u.principal()).collect();
                let oc2 = ops_c.clone();
                u.setup(move |env| {
                    let c = AxelarOperatorsClient::new(env, &oc2);
                    for f in &fillers {
                        let _ = c.try_add_operator(f);
                    }
                });
                u.skip_events();
                crowded = true;
                rep.count("eighteen-further-operators-enrolled");
                rep.step("the owner enrols 18 further operators".into());
            }
            let choice = rng.weighted(&[3, 3, 1, 8]);
            let ci = rng.usize(cands.len());
            let cand = cands[ci].clone();
            let oc = ops_c.clone();
            match choice {
                0 | 1 => {
                    let adding = choice == 0;
                    let present = members.contains(&ci);
                    let auth_class = *rng.pick(&["owner", "owner", "owner", "nobody", "stranger", "candidate", "former-owner"]);
                    let auth = match auth_class {
                        "owner" => Auth::Only(vec![owner.clone()]),
                        "nobody" => Auth::Nobody,
                        "stranger" => Auth::AllBy(stranger.clone()),
                        "candidate" => Auth::AllBy(cand.clone()),
                        _ => match former_owners.last() {
                            Some(f) if *f != owner => Auth::AllBy(f.clone()),
                            _ => Auth::Nobody,
                        },
                    };
                    // the candidate may be the current owner itself
                    let by_owner = auth_class == "owner" || (auth_class == "candidate" && cand == owner);
                    let want = by_owner && (adding != present);
                    let class = if !by_owner {
                        if adding { "add-not-owner" } else { "remove-not-owner" }
                    } else if adding {
                        if present { "add-present" } else { "add-absent" }
                    } else if present {
                        "remove-present"
                    } else {
                        "remove-absent"
                    };
                    let c2 = cand.clone();
                    let o = u.call(auth, &move |env: &Env| {
                        let c = AxelarOperatorsClient::new(env, &oc);
                        if adding {
                            flat(c.try_add_operator(&c2))
                        } else {
                            flat(c.try_remove_operator(&c2))
                        }
                    });
                    rep.step(format!("{} cand#{} auth={} -> {:?}", class, ci, auth_class, o.res));
                    rep.eval(class, &format!("{}|{}|{}|{}", class, auth_class, members.len(), o.ok()), true);
                    if let Some(l) = &o.leak {
                        rep.violation(&format!("refused-call-left-trace:{}", class), l.clone());
                        break;
                    }
                    if o.ok() != want {
                        rep.violation(
                            &format!("{}:{}", class, if o.ok() { "accepted" } else { "refused" }),
                            format!("{} (authoriser {}) -> ok={}, model says {}", class, auth_class, o.ok(), want),
                        );
                        break;
                    }
                    if o.ok() {
                        if adding {
                            members.insert(ci);
                            ever.insert(ci);
                        } else {
                            members.remove(&ci);
                        }
                        for e in &o.events {
                            rep.event(&e.kind());
                        }
                    }
                }
                2 => {
                    let new_owner = if rng.chance(1, 3) { owner.clone() } else { u.principal() };
                    let no = new_owner.clone();
                    let o = u.call(Auth::Only(vec![owner.clone()]), &move |env: &Env| {
                        let c = AxelarOperatorsClient::new(env, &oc);
                        flat(c.try_transfer_ownership(&no))
                    });
                    rep.step(format!("transfer-ownership -> {:?}", o.res));
                    rep.eval("transfer-ownership", &format!("transfer|{}", o.ok()), true);
                    if !o.ok() {
                        rep.foreign("ownership-transfer-refused");
                        break;
                    }
                    former_owners.push(owner.clone());
                    owner = new_owner;
                }
                _ => {
                    // forwarded call (not in the name of the address nobody can sign for)
                    if ci == twin_idx {
                        continue;
                    }
                    let is_member = members.contains(&ci);
                    let was_member = ever.contains(&ci);
                    let auth_class = *rng.pick(&["own", "own", "own", "own", "nobody", "stranger", "owner", "own-other-arguments", "own-other-target", "own-other-function"]);
                    // the owner's authorisation is the member's own when the member is the owner
                    let auth_class = if auth_class == "owner" && cand == owner { "own" } else { auth_class };
                    let auth = match auth_class {
                        "own" | "own-other-arguments" | "own-other-target" | "own-other-function" => Auth::Only(vec![cand.clone()]),
                        "nobody" => Auth::Nobody,
                        "stranger" => Auth::AllBy(stranger.clone()),
                        _ => Auth::AllBy(owner.clone()),
                    };
                    let target_fails = rng.chance(1, 6);
                    // the target traps, or fails with one of its own contract error codes
                    let fail_kind: u32 = rng.below(2) as u32;
                    let nargs = rng.usize(5);
                    let fname = if nargs == 1 && rng.chance(1, 2) { "g1".to_string() } else { format!("f{}", nargs) };
                    let mut pool = cands.clone();
                    pool.push(target.clone());
                    let args: Vec<ScVal> = (0..nargs).map(|_| gen_val(&mut rng, &pool)).collect();
                    let ret = gen_val(&mut rng, &pool);
                    let (tg, r2) = (target.clone(), ret.clone());
                    u.setup(move |env| {
                        let t = ProbeTargetClient::new(env, &tg);
                        t.set_ret(&to_val(env, &r2));
                        t.set_fail(&target_fails);
                        t.set_fail_kind(&fail_kind);
                    });
                    let class = if auth_class != "own" {
                        format!("execute-member-{}-auth", auth_class).replace("nobody-auth", "no-auth")
                    } else if target_fails && is_member {
                        "execute-target-fails".to_string()
                    } else if is_member {
                        "execute-member".to_string()
                    } else if was_member {
                        "execute-former-member".to_string()
                    } else {
                        "execute-never-member".to_string()
                    };
                    let want = auth_class == "own" && is_member && !target_fails;
                    // the caller's authorisation, but recorded for other arguments (same target and function)
                    let auth = if auth_class == "own-other-arguments" {
                        let mut other_args = args.clone();
                        other_args.push(sv_u32(4_000_000));
                        if nargs > 0 {
                            other_args.remove(0);
                        } else {
                            // f0 takes nothing: authorise g1(x) instead
                        }
                        let other_fn = if nargs == 0 { "g1".to_string() } else { fname.clone() };
                        let (oc3, c3, tg3) = (ops_c.clone(), cand.clone(), target.clone());
                        let (_, forest) = u.record(&move |env: &Env| {
                            let c = AxelarOperatorsClient::new(env, &oc3);
                            let mut av: SVec<Val> = SVec::new(env);
                            for a in &other_args {
                                av.push_back(to_val(env, a));
                            }
                            flat(c.try_execute(&c3, &tg3, &Symbol::new(env, &other_fn), &av)).map(|_| ())
                        });
                        let h = sc_addr(&cand);
                        Auth::Forest(forest.into_iter().filter(|(a, _)| *a == h).collect())
                    } else if auth_class == "own-other-target" || auth_class == "own-other-function" {
                        // the same request, but authorised for the other target contract / another function
                        let (tg3, fn3) = if auth_class == "own-other-target" { (other_target.clone(), fname.clone()) } else { (target.clone(), if fname == "g1" { "f1".to_string() } else if nargs == 1 { "g1".to_string() } else { "log".to_string() }) };
                        let (oc3, c3, a3) = (ops_c.clone(), cand.clone(), args.clone());
                        let (_, forest) = u.record(&move |env: &Env| {
                            let c = AxelarOperatorsClient::new(env, &oc3);
                            let mut av: SVec<Val> = SVec::new(env);
                            for a in &a3 {
                                av.push_back(to_val(env, a));
                            }
                            flat(c.try_execute(&c3, &tg3, &Symbol::new(env, &fn3), &av)).map(|_| ())
                        });
                        let h = sc_addr(&cand);
                        Auth::Forest(forest.into_iter().filter(|(a, _)| *a == h).collect())
                    } else {
                        auth
                    };
                    let (tg, fnm, a2, c2) = (target.clone(), fname.clone(), args.clone(), cand.clone());
                    let o = u.call(auth, &move |env: &Env| {
                        let c = AxelarOperatorsClient::new(env, &oc);
                        let mut av: SVec<Val> = SVec::new(env);
                        for a in &a2 {
                            av.push_back(to_val(env, a));
                        }
                        flat(c.try_execute(&c2, &tg, &Symbol::new(env, &fnm), &av)).map(|v| ScVal::try_from_val(env, &v).expect("ret scval"))
                    });
                    rep.step(format!("{} cand#{} fn={} nargs={} target_fails={} -> ok={}", class, ci, fname, nargs, target_fails, o.ok()));
                    rep.eval(&class, &format!("{}|{}|{}|{}|{}", class, fname, is_member, target_fails, o.ok()), true);
                    if rep.samples.len() < 4 && rng.chance(1, 40) {
                        rep.sample(json!({"op": class, "function": fname, "args": format!("{:?}", args).chars().take(200).collect::<String>(), "accepted": o.ok()}));
                    }
                    if let Some(l) = &o.leak {
                        rep.violation(&format!("failed-execute-left-trace:{}", class), l.clone());
                        break;
                    }
                    if o.ok() != want {
                        rep.violation(
                            &format!("{}:{}", class, if o.ok() { "accepted" } else { "refused" }),
                            format!("execute as cand#{} (member={}, authoriser {}) -> ok={}, model says {}: {:?}", ci, is_member, auth_class, o.ok(), want, o.res.as_ref().err()),
                        );
                        break;
                    }
                    // the target's log
                    let tg = target.clone();
                    let log: Vec<ScVal> = u.query(move |env| {
                        let t = ProbeTargetClient::new(env, &tg);
                        t.log().iter().map(|v| ScVal::try_from_val(env, &v).unwrap()).collect()
                    });
                    if o.ok() {
                        if o.res.as_ref().unwrap() != &ret {
                            rep.violation("return-value-altered", format!("target returned {:?}, caller got {:?}", ret, o.res));
                            break;
                        }
                        if log.len() as u32 != log_len + 1 {
                            rep.violation("forwarded-call-count", format!("target log grew by {} entries for one forwarded call", log.len() as i64 - log_len as i64));
                            break;
                        }
                        let want_rec = sv_vec(vec![sv_sym(&fname), sv_vec(args.clone())]);
                        if log.last().unwrap() != &want_rec {
                            rep.violation("forwarded-call-altered", format!("target saw {:?}, expected {:?}", log.last().unwrap(), want_rec));
                            break;
                        }
                        log_len += 1;
                    } else if log.len() as u32 != log_len {
                        rep.violation("failed-execute-reached-target", "target log grew although execute failed".into());
                        break;
                    }
                    // the other target must never be touched
                    let ot = other_target.clone();
                    let n_other: u32 = u.query(move |env| ProbeTargetClient::new(env, &ot).log().len());
                    if n_other != 0 {
                        rep.violation("call-reached-wrong-contract", "a contract that was never named received a call".into());
                        break;
                    }
                }
            }
            // unknown entry points, tried by a stranger with what is at hand: an account, or a complete
            // forwarding request in a member's name; membership and the target's log must not move
            if !unknown_fns.is_empty() {
                use soroban_sdk::IntoVal;
                let env = u.env.clone();
                let mut a1: SVec<Val> = SVec::new(&env);
                a1.push_back(1u32.into_val(&env));
                let tuples: Vec<SVec<Val>> = vec![
                    (cand.clone(),).into_val(&env),
                    (stranger.clone(),).into_val(&env),
                    (cand.clone(), target.clone(), Symbol::new(&env, "f1"), a1.clone()).into_val(&env),
                    (target.clone(), Symbol::new(&env, "f1"), a1.clone()).into_val(&env),
                    // a list of signers: nobody, only the stranger, a candidate and the stranger
                    (SVec::<Address>::new(&env), target.clone(), Symbol::new(&env, "f1"), a1.clone()).into_val(&env),
                    (SVec::from_array(&env, [stranger.clone()]), target.clone(), Symbol::new(&env, "f1"), a1.clone()).into_val(&env),
                    (SVec::from_array(&env, [cand.clone(), stranger.clone()]), target.clone(), Symbol::new(&env, "f1"), a1).into_val(&env),
                ];
                let n = u.try_unknown(&ops_c, &unknown_fns, &tuples, &Auth::AllBy(stranger.clone()));
                rep.count("unknown-entry-point-tried");
                if n > 0 {
                    rep.count("note:unknown-entry-point-accepted-a-call");
                    let tg = target.clone();
                    let len: u32 = u.query(move |env| ProbeTargetClient::new(env, &tg).log().len());
                    if len != log_len {
                        rep.violation("call-forwarded-through-an-unknown-entry-point", "the target received a call that no member authorised".into());
                        break;
                    }
                }
            }
            // membership of every candidate (and of owner / stranger)
            let mut all: Vec<(Address, bool)> = cands.iter().enumerate().map(|(i, a)| (a.clone(), members.contains(&i))).collect();
            if !cands.contains(&owner) {
                all.push((owner.clone(), false));
            }
            all.push((stranger.clone(), false));
            for (a, want) in all {
                let oc = ops_c.clone();
                let got = u.query(move |env| AxelarOperatorsClient::new(env, &oc).is_operator(&a));
                if got != want {
                    rep.violation("membership-disagrees-with-history", format!("is_operator = {}, model {}", got, want));
                    alive = false;
                    break;
                }
            }
        }
    }
    rep.notes.insert("required".into(), json!(REQUIRED));
    rep.notes.insert("rule".into(), json!("universes of 40 operations over 5 candidate operators: add/remove (absent/present; authorised by owner, nobody, stranger, the candidate, a former owner), ownership transfers, and execute as member / former member / never member under own, no, stranger's or the owner's authorisation, forwarding f0..f4/g1 with 0-4 mixed arguments (void, u32, i128, address, vec, map, bytes, bool) to a probe target that returns a configured value or fails; is_operator of every address after every step; return value and the target's recorded (function, args) compared as XDR. distinct = (op class, function, membership, target failing, outcome)"));
}
