//! C09 — rotations are rate-limited unless the operator bypasses the delay.
//! Ledger-time schedules placed exactly at / one second around the boundary, enumerated
//! completely per minimum delay for sequences of (time offset x rotation kind); model clock
//! `last` is updated only on success; every history ends with decisive boundary probes.

use crate::gw::*;
use crate::oracle::*;
use crate::props::c03::rotation_step;
use crate::report::Report;
use crate::rng::Rng;
use crate::univ::*;
use crate::Ctx;
use serde_json::json;

const OFFSETS: [&str; 4] = ["no-time-passing", "boundary-1", "boundary", "boundary+1"];
const KINDS: [&str; 4] = ["normal", "bypass-operator", "bypass-no-operator", "normal-bad-proof"];

pub fn run(ctx: &Ctx, rep: &mut Report) {
    let delays: Vec<u64> = if ctx.thorough() { vec![0, 1, 2, 100, 86_400, 1 << 63, u64::MAX - 1, u64::MAX] } else { vec![0, 1, 100, u64::MAX] };
    let len: u32 = if ctx.thorough() { 4 } else { 3 };
    let seqs = 16u64.pow(len);
    let total = delays.len() as u64 * seqs;
    for uni in ctx.my_universes(total) {
        let mut rng = ctx.rng_for(uni);
        rep.begin_universe(uni);
        let delay = delays[(uni / seqs) as usize % delays.len()];
        let mut code = uni % seqs;
        // deployment at the very first ledger time, right after it, at an ordinary time, or very late
        let t0 = match rng.below(6) {
            0 => 0,
            1 => 1,
            2 => u64::MAX - 1_000_000 - rng.below(1000),
            _ => 1_000_000u64 + rng.below(1000),
        };
        let mut u = U::with_ledger(100, t0);
        let pace: u64 = if rng.chance(1, 3) { 1 } else { 5 };
        rep.count(&format!("ledger-pace:{}s", pace));
        let mut ring = KeyRing::default();
        let owner = u.principal();
        let operator = u.principal();
        let stranger = u.principal();
        // one to three initial signer sets (the deployment is one rotation however many it installs)
        let n_init = 1 + rng.usize(3);
        let initial: Vec<MSigners> = (0..n_init).map(|_| gen_wellformed_set(&mut rng, &mut ring, 3)).collect();
        rep.count(&format!("initial-sets:{}", n_init));
        let mut g = Gw::deploy(&mut u, &owner, &operator, rng.bytes32(), delay, 2, &initial);
        rep.step(format!("world delay={} deployed_at={}", delay, t0));
        let mut alive = true;
        for step in 0..len {
            let off = OFFSETS[(code % 4) as usize];
            let kind = KINDS[((code / 4) % 4) as usize];
            code /= 16;
            let last = g.model.last_rotation;
            let now = u.time();
            let target = match off {
                "no-time-passing" => now,
                "boundary-1" => last.saturating_add(delay).saturating_sub(1),
                "boundary" => last.saturating_add(delay),
                _ => last.saturating_add(delay).saturating_add(1),
            };
            // the ledger clock never goes backwards
            let t = target.max(now);
            // ledgers close every 5 s or every second; now and then a long quiet period passes first
            // (long enough for every temporary entry to expire; the model clock reads the real time)
            if rng.chance(1, 8) {
                u.advance(EON);
                rep.count("eon-before-step");
            }
            // an upgrade to the same code and a migration do not restart or stop the clock
            if rng.chance(1, 8) {
                let ga = g.addr.clone();
                if u.upgrade_and_migrate(&ga).is_ok() {
                    rep.count("upgrade-and-migrate");
                }
            }
            let t = t.max(u.time());
            u.advance_to_time_paced(t, pace);
            let cand = gen_wellformed_set(&mut rng, &mut ring, 3);
            let newest = g.model.sets.last().unwrap().clone();
            let dh = cand.rotation_data_hash();
            let (plan, bypass, auth, op_auth) = match kind {
                "normal" => (plan_honest(&ring, &g.model.domain, &newest, &dh, &all_slots(&newest)), false, Auth::Nobody, false),
                "bypass-operator" => (plan_honest(&ring, &g.model.domain, &newest, &dh, &all_slots(&newest)), true, Auth::Only(vec![operator.clone()]), true),
                "bypass-no-operator" => {
                    let a = match rng.below(3) { 0 => Auth::Nobody, 1 => Auth::AllBy(stranger.clone()), _ => Auth::AllBy(owner.clone()) };
                    (plan_honest(&ring, &g.model.domain, &newest, &dh, &all_slots(&newest)), true, a, false)
                }
                _ => {
                    let sub = one_short_subset(&mut rng, &newest);
                    (plan_honest(&ring, &g.model.domain, &newest, &dh, &sub), false, Auth::Nobody, false)
                }
            };
            let elapsed = t - last;
            let rel = if elapsed < delay { "before" } else if elapsed == delay { "at" } else { "after" };
            let class_sig = format!("{}@{}", kind, rel);
            rep.count(&format!("offset:{}", off));
            rep.count(&format!("kind:{}", kind));
            rep.count(&format!("rel:{}", rel));
            if rep.samples.len() < 5 && rng.chance(1, 200) {
                rep.sample(json!({"delay": delay.to_string(), "step": step, "kind": kind, "time": t, "last_success": last, "elapsed": elapsed}));
            }
            if !rotation_step(ctx, rep, &mut u, &mut g, &cand, &plan, bypass, auth, op_auth, kind, &format!("d{}:{}", if delay > 100 { "big".to_string() } else { delay.to_string() }, class_sig), &["C09"]) {
                alive = false;
                break;
            }
        }
        if !alive {
            continue;
        }
        // decisive boundary probes from the final state (rolled back): one second early must be
        // refused (when the delay is positive), exactly at the boundary must be accepted
        let last = g.model.last_rotation;
        let now = u.time();
        let newest = g.model.sets.last().unwrap().clone();
        for (label, t) in [("final-early", last.saturating_add(delay).saturating_sub(1)), ("final-at", last.saturating_add(delay))] {
            if t < now {
                continue;
            }
            let cand = gen_wellformed_set(&mut rng, &mut ring, 2);
            let plan = plan_honest(&ring, &g.model.domain, &newest, &cand.rotation_data_hash(), &all_slots(&newest));
            let want = t - last >= delay;
            let gref = &g;
            let o = u.probe(|u| {
                u.advance_to_time(t);
                gref.do_rotate(u, &cand, &plan, false, Auth::Nobody)
            });
            rep.eval(label, &format!("{}|d={}|{}|{}", label, delay.min(101), want, o.ok()), true);
            if o.ok() != want {
                rep.violation(
                    &format!("boundary-probe:{}:{}", label, if o.ok() { "accepted" } else { "refused" }),
                    format!("plain rotation at t={} with last successful rotation at {} and delay {}: accepted={}, expected {}", t, last, delay, o.ok(), want),
                );
            }
        }
    }
    rep.exhaustive = Some(true);
    let mut req: Vec<String> = OFFSETS.iter().map(|o| format!("offset:{}", o)).collect();
    req.extend(KINDS.iter().map(|o| format!("kind:{}", o)));
    req.extend(["rel:before", "rel:at", "rel:after", "final-at"].iter().map(|s| s.to_string()));
    rep.notes.insert("required".into(), json!(req));
    rep.notes.insert("bounds".into(), json!({"delays": delays.iter().map(|d| d.to_string()).collect::<Vec<_>>(), "sequence_length": len, "options_per_step": 16}));
    rep.notes.insert("rule".into(), json!("exhaustive within bounds: for every minimum delay, every sequence of the stated length over (time offset in {no time passing, boundary-1, boundary, boundary+1} relative to last successful rotation + delay) x (kind in {plain, bypass with operator, bypass without operator, plain with insufficient proof}); the ledger timestamp is set explicitly before each call and never decreases, ledgers close every 5 s or every second, one step in eight is preceded by a quiet period long enough for every temporary entry to expire; deployment (at ledger time 0, 1, an ordinary time or close to the end of the u64 range) counts as the first rotation; each history ends with rolled-back probes one second before and exactly at the boundary. distinct = (delay, kind, before/at/after boundary, expectation, outcome, epoch)"));
}
