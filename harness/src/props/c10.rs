//! C10 — the ITS codec is exact canonical Solidity ABI and never misdecodes.
//! Differential against the hand-written encoder; decode => re-encode fix-point on hostile
//! bytes; panic monitor (catch_unwind); the same workload can be run under valgrind memcheck.

use crate::gw::{sbytes, sstr};
use crate::oracle::*;
use crate::report::Report;
use crate::rng::Rng;
use crate::Ctx;
use interchain_token_service::types::{DeployInterchainToken, HubMessage, InterchainTransfer, Message};
use serde_json::json;
use soroban_sdk::testutils::EnvTestConfig;
use soroban_sdk::{Bytes, BytesN, Env, String as SString};
use std::panic::{catch_unwind, AssertUnwindSafe};

const LENS: [usize; 8] = [0, 1, 20, 31, 32, 33, 64, 1000];
const MUTATIONS: &[&str] = &[
    "valid",
    "bit-flip",
    "word-edit",
    "truncate-word",
    "truncate-any",
    "append",
    "outer-type-tag",
    "inner-type-tag",
    "inner-edit-rewrapped",
    "amount-word",
    "random-bytes",
    "random-with-tag",
    "inner-direct",
];

fn new_env() -> Env {
    let env = Env::new_with_config(EnvTestConfig {
        capture_snapshot_at_drop: false,
    });
    env.budget().reset_unlimited();
    env
}

fn gen_utf8(rng: &mut Rng) -> Vec<u8> {
    let pieces: [&str; 8] = ["a", "Z", "0", " ", "é", "中", "🪙", "\u{0}"];
    let n = *rng.pick(&[0usize, 1, 5, 11, 31, 32, 33, 200]);
    let mut s = String::new();
    while s.len() < n {
        s.push_str(pieces[rng.usize(pieces.len())]);
    }
    s.into_bytes()
}

fn gen_inner(rng: &mut Rng) -> MItsMsg {
    if rng.chance(1, 2) {
        let amount: u128 = match rng.below(6) {
            0 => 0,
            1 => 1,
            2 => 1u128 << 64,
            3 => i128::MAX as u128,
            4 => (i128::MAX as u128) - 1,
            _ => rng.next_u128() >> 1,
        };
        MItsMsg::Transfer {
            token_id: rng.bytes32(),
            source: rng.bytes_of(&LENS),
            dest: rng.bytes_of(&LENS),
            amount,
            amount_hi: 0,
            data: rng.bytes_of(&LENS),
        }
    } else {
        MItsMsg::Deploy {
            token_id: rng.bytes32(),
            name: gen_utf8(rng),
            symbol: gen_utf8(rng),
            decimals: match rng.below(4) {
                0 => 0,
                1 => 255,
                2 => 18,
                _ => rng.below(256) as u8,
            },
            minter: rng.bytes_of(&LENS),
        }
    }
}

fn gen_msg(rng: &mut Rng) -> MHubMsg {
    MHubMsg {
        to_hub: rng.chance(1, 2),
        chain: gen_utf8(rng),
        inner: gen_inner(rng),
    }
}

fn opt_bytes(env: &Env, b: &[u8]) -> Option<Bytes> {
    if b.is_empty() {
        None
    } else {
        Some(sbytes(env, b))
    }
}

fn to_sdk_inner(env: &Env, m: &MItsMsg) -> Message {
    match m {
        MItsMsg::Transfer { token_id, source, dest, amount, data, .. } => Message::InterchainTransfer(InterchainTransfer {
            token_id: BytesN::from_array(env, token_id),
            source_address: sbytes(env, source),
            destination_address: sbytes(env, dest),
            amount: *amount as i128,
            data: opt_bytes(env, data),
        }),
        MItsMsg::Deploy { token_id, name, symbol, decimals, minter } => Message::DeployInterchainToken(DeployInterchainToken {
            token_id: BytesN::from_array(env, token_id),
            name: sstr(env, name),
            symbol: sstr(env, symbol),
            decimals: *decimals,
            minter: opt_bytes(env, minter),
        }),
    }
}

fn to_sdk(env: &Env, m: &MHubMsg) -> HubMessage {
    let inner = to_sdk_inner(env, &m.inner);
    if m.to_hub {
        HubMessage::SendToHub { destination_chain: sstr(env, &m.chain), message: inner }
    } else {
        HubMessage::ReceiveFromHub { source_chain: sstr(env, &m.chain), message: inner }
    }
}

fn s2v(s: &SString) -> Vec<u8> {
    let mut b = vec![0u8; s.len() as usize];
    s.copy_into_slice(&mut b);
    b
}

fn ob2v(b: &Option<Bytes>) -> Vec<u8> {
    b.as_ref().map(|x| x.to_alloc_vec()).unwrap_or_default()
}

fn from_sdk_inner(m: &Message) -> Option<MItsMsg> {
    Some(match m {
        Message::InterchainTransfer(t) => {
            if t.amount < 0 {
                return None;
            }
            MItsMsg::Transfer {
                token_id: t.token_id.to_array(),
                source: t.source_address.to_alloc_vec(),
                dest: t.destination_address.to_alloc_vec(),
                amount: t.amount as u128,
                amount_hi: 0,
                data: ob2v(&t.data),
            }
        }
        Message::DeployInterchainToken(d) => MItsMsg::Deploy {
            token_id: d.token_id.to_array(),
            name: s2v(&d.name),
            symbol: s2v(&d.symbol),
            decimals: d.decimals,
            minter: ob2v(&d.minter),
        },
    })
}

fn from_sdk(m: &HubMessage) -> Option<MHubMsg> {
    Some(match m {
        HubMessage::SendToHub { destination_chain, message } => MHubMsg { to_hub: true, chain: s2v(destination_chain), inner: from_sdk_inner(message)? },
        HubMessage::ReceiveFromHub { source_chain, message } => MHubMsg { to_hub: false, chain: s2v(source_chain), inner: from_sdk_inner(message)? },
    })
}

fn hostile_word(rng: &mut Rng) -> [u8; 32] {
    let mut w = [0u8; 32];
    match rng.below(10) {
        0 => {}
        1 => w[31] = 1,
        2 => { let k = rng.below(1 << 9) as u16 * 0x20; w[30] = (k >> 8) as u8; w[31] = k as u8; }
        3 => w[0] = 0x80,
        4 => w = [0xff; 32],
        5 => w[16] = 0x80,              // 2^127
        6 => w[16..].copy_from_slice(&[0xff; 16]), // 2^128-1
        7 => w[15] = 1,                 // 2^128
        8 => w[30] = 1,                 // 256
        _ => w = rng.bytes32(),
    }
    w
}

fn mutate(rng: &mut Rng, m: &MHubMsg, kind: &str) -> Vec<u8> {
    let valid = m.encode();
    let words = valid.len() / 32;
    match kind {
        "valid" => valid,
        "bit-flip" => {
            let mut v = valid;
            let bit = rng.usize(v.len() * 8);
            v[bit / 8] ^= 1 << (bit % 8);
            v
        }
        "word-edit" => {
            let mut v = valid;
            let k = rng.usize(words);
            v[k * 32..k * 32 + 32].copy_from_slice(&hostile_word(rng));
            v
        }
        "truncate-word" => valid[..32 * rng.usize(words)].to_vec(),
        "truncate-any" => valid[..rng.usize(valid.len())].to_vec(),
        "append" => {
            let mut v = valid;
            let n = *rng.pick(&[1usize, 31, 32, 64]);
            if rng.chance(1, 2) {
                v.extend(std::iter::repeat(0u8).take(n));
            } else {
                v.extend(rng.bytes(n));
            }
            v
        }
        "outer-type-tag" => {
            let mut v = valid;
            let t = *rng.pick(&[0u8, 1, 2, 5, 6, 7, 3, 4]);
            v[..32].copy_from_slice(&word_u(t as u128));
            if rng.chance(1, 8) {
                v[0] = 0x80;
            }
            v
        }
        "inner-type-tag" => {
            let mut inner = m.inner.encode();
            let t = *rng.pick(&[0u8, 1, 2, 3, 4, 5, 255]);
            inner[..32].copy_from_slice(&word_u(t as u128));
            hub_wrap(if m.to_hub { 3 } else { 4 }, &m.chain, &inner)
        }
        "inner-edit-rewrapped" => {
            let mut inner = m.inner.encode();
            match rng.below(4) {
                0 => {
                    let k = rng.usize(inner.len() / 32);
                    inner[k * 32..k * 32 + 32].copy_from_slice(&hostile_word(rng));
                }
                1 => {
                    let bit = rng.usize(inner.len() * 8);
                    inner[bit / 8] ^= 1 << (bit % 8);
                }
                2 => inner.truncate(rng.usize(inner.len())),
                _ => inner.extend(rng.bytes_of(&[1usize, 32])),
            }
            hub_wrap(if m.to_hub { 3 } else { 4 }, &m.chain, &inner)
        }
        "amount-word" => {
            // transfers only: overwrite the amount with a boundary value
            let inner = match &m.inner {
                MItsMsg::Transfer { token_id, source, dest, data, .. } => {
                    let (lo, hi): (u128, u128) = match rng.below(8) {
                        0 => (1u128 << 127, 0),
                        1 => (u128::MAX, 0),
                        2 => (0, 1),
                        3 => (0, 1u128 << 127),
                        // every limb boundary of the 256-bit word, with an innocent low part
                        4 => (1000, 1),
                        5 => (1000, 1 << 63),
                        6 => (1000, 1 << 64),
                        _ => (i128::MAX as u128, 0),
                    };
                    MItsMsg::Transfer { token_id: *token_id, source: source.clone(), dest: dest.clone(), amount: lo, amount_hi: hi, data: data.clone() }
                }
                other => other.clone(),
            };
            MHubMsg { to_hub: m.to_hub, chain: m.chain.clone(), inner }.encode()
        }
        "random-bytes" => rng.bytes_upto(400),
        "random-with-tag" => {
            let nw = 1 + rng.usize(12);
            let mut v = rng.bytes(32 * nw);
            v[..32].copy_from_slice(&word_u(rng.below(6) as u128));
            v
        }
        _ => valid,
    }
}

pub fn run(ctx: &Ctx, rep: &mut Report) {
    let total = ctx.universes(5120, 400000);
    let per_universe = 100;
    for uni in ctx.my_universes(total) {
        let mut rng = ctx.rng_for(uni);
        rep.begin_universe(uni);
        let env = new_env();
        for _ in 0..per_universe {
            let m = gen_msg(&mut rng);
            let kind = *rng.pick(MUTATIONS);
            rep.count(&format!("mutation:{}", kind));
            // (a) + (b): encoder differential and round trip on the representable message
            if kind == "valid" || rng.chance(1, 4) {
                let want = m.encode();
                let sdk = to_sdk(&env, &m);
                let got = catch_unwind(AssertUnwindSafe(|| sdk.clone().abi_encode(&env)));
                let inner_kind = match m.inner {
                    MItsMsg::Transfer { .. } => "transfer",
                    _ => "deploy",
                };
                rep.eval("encode", &format!("encode|{}|{}|{}", m.to_hub, inner_kind, want.len() / 32), true);
                match got {
                    Ok(Ok(b)) => {
                        if b.to_alloc_vec() != want {
                            rep.step(format!("message {:?}", m));
                            rep.violation(
                                &format!("encoding-differs-from-abi:{}", inner_kind),
                                format!("abi_encode differs from the independent Solidity ABI encoding ({} vs {} bytes) for {:?}", b.len(), want.len(), m).chars().take(600).collect(),
                            );
                            continue;
                        }
                        let back = catch_unwind(AssertUnwindSafe(|| HubMessage::abi_decode(&env, &b)));
                        match back {
                            Ok(Ok(d)) => {
                                if d != sdk {
                                    rep.violation(&format!("round-trip-differs:{}", inner_kind), format!("decode(encode(m)) != m for {:?}", m).chars().take(600).collect());
                                }
                            }
                            Ok(Err(e)) => rep.violation(&format!("own-encoding-rejected:{}", inner_kind), format!("{:?} for {:?}", e, m).chars().take(600).collect()),
                            Err(_) => rep.violation("decode-panicked", format!("on own encoding of {:?}", m).chars().take(400).collect()),
                        }
                    }
                    Ok(Err(e)) => rep.violation(&format!("representable-message-not-encoded:{}", inner_kind), format!("{:?} for {:?}", e, m).chars().take(600).collect()),
                    Err(_) => rep.violation(&format!("encode-panicked:{}", inner_kind), format!("{:?}", m).chars().take(400).collect()),
                }
                if kind == "valid" {
                    continue;
                }
            }
            // (c) + (d): hostile bytes through the decoder
            let (bytes, direct_inner) = if kind == "inner-direct" {
                let mut b = m.inner.encode();
                match rng.below(4) {
                    0 => {}
                    1 => {
                        let bit = rng.usize(b.len() * 8);
                        b[bit / 8] ^= 1 << (bit % 8);
                    }
                    2 => {
                        let k = rng.usize(b.len() / 32);
                        b[k * 32..k * 32 + 32].copy_from_slice(&hostile_word(&mut rng));
                    }
                    _ => b.extend(rng.bytes_of(&[1usize, 32])),
                }
                (b, true)
            } else {
                (mutate(&mut rng, &m, kind), false)
            };
            let sb = sbytes(&env, &bytes);
            let res: Result<Result<Option<Vec<u8>>, String>, ()> = catch_unwind(AssertUnwindSafe(|| {
                if direct_inner {
                    match Message::abi_decode(&env, &sb) {
                        Ok(d) => Ok(from_sdk_inner(&d).map(|x| x.encode())),
                        Err(e) => Err(format!("{:?}", e)),
                    }
                } else {
                    match HubMessage::abi_decode(&env, &sb) {
                        Ok(d) => Ok(from_sdk(&d).map(|x| x.encode())),
                        Err(e) => Err(format!("{:?}", e)),
                    }
                }
            }))
            .map_err(|_| ());
            let outcome = match &res {
                Ok(Ok(_)) => "accepted",
                Ok(Err(_)) => "rejected",
                Err(_) => "panicked",
            };
            rep.eval("decode", &format!("decode|{}|{}|{}", kind, outcome, (bytes.len() / 32).min(40)), true);
            if rep.samples.len() < 5 && rng.chance(1, 2000) {
                rep.sample(json!({"mutation": kind, "bytes_len": bytes.len(), "head": hex(&bytes[..bytes.len().min(48)]), "decoder": outcome}));
            }
            match res {
                Err(_) => {
                    rep.violation(&format!("decode-panicked:{}", kind), format!("input ({} bytes) {}", bytes.len(), hex(&bytes[..bytes.len().min(200)])));
                }
                Ok(Ok(None)) => {
                    rep.violation(&format!("decoded-negative-amount:{}", kind), format!("input {}", hex(&bytes[..bytes.len().min(300)])));
                }
                Ok(Ok(Some(re))) => {
                    rep.count("decoder-accepted");
                    if re != bytes {
                        let why = if re.len() < bytes.len() && bytes[..re.len()] == re[..] {
                            "trailing-bytes"
                        } else if re.len() == bytes.len() {
                            "non-canonical-words"
                        } else {
                            "different-length"
                        };
                        rep.violation(
                            &format!("accepted-non-canonical:{}:{}", kind, why),
                            format!("decoder accepted {} bytes whose canonical re-encoding has {} bytes ({}); input head {}", bytes.len(), re.len(), why, hex(&bytes[..bytes.len().min(160)])),
                        );
                    }
                }
                Ok(Err(_)) => {
                    rep.count("decoder-rejected");
                }
            }
        }
    }
    // (e) non-representable messages must not encode
    if ctx.shard == 0 || ctx.only_universe.is_some() {
        let env = new_env();
        let mut rng = ctx.rng_for(u64::MAX);
        for i in 0..40 {
            let mut m = gen_msg(&mut rng);
            let what = if i % 2 == 0 { "non-utf8-name" } else { "negative-amount" };
            let sdk = if what == "non-utf8-name" {
                m.inner = MItsMsg::Deploy { token_id: [1; 32], name: vec![0xff, 0xfe, 0xc0], symbol: b"S".to_vec(), decimals: 1, minter: vec![] };
                if i % 4 == 0 {
                    m.chain = vec![0xc0, 0x80];
                    m.inner = gen_inner(&mut rng);
                }
                to_sdk(&env, &m)
            } else {
                let inner = Message::InterchainTransfer(InterchainTransfer {
                    token_id: BytesN::from_array(&env, &[2; 32]),
                    source_address: sbytes(&env, b"s"),
                    destination_address: sbytes(&env, b"d"),
                    amount: -1 - (rng.below(1000) as i128),
                    data: None,
                });
                HubMessage::SendToHub { destination_chain: sstr(&env, b"c"), message: inner }
            };
            let got = catch_unwind(AssertUnwindSafe(|| sdk.abi_encode(&env)));
            rep.eval("encode-nonrepresentable", &format!("nonrep|{}|{}", what, matches!(got, Ok(Ok(_)))), true);
            rep.count(&format!("nonrepresentable:{}", what));
            if let Ok(Ok(b)) = got {
                rep.violation(&format!("non-representable-message-encoded:{}", what), format!("{} bytes produced", b.len()));
            }
        }
    }
    let mut req: Vec<String> = MUTATIONS.iter().map(|m| format!("mutation:{}", m)).collect();
    req.push("decoder-accepted".into());
    req.push("decoder-rejected".into());
    rep.notes.insert("required".into(), json!(req));
    rep.notes.insert("rule".into(), json!("messages: both wrappers x both inner kinds, ids/addresses/data of length {0,1,20,31,32,33,64,1000}, UTF-8 names with multi-byte characters up to 200 bytes, amounts {0,1,2^64,2^127-2,2^127-1,random}, decimals 0..255: abi_encode compared byte for byte with the hand-written encoder and round-tripped. Bytes: 13 mutation classes of valid encodings (bit flip, hostile word edits of offsets/lengths/padding, truncation, appended bytes, outer/inner type tags, inner message edited and re-wrapped canonically, amount words 2^127/2^128-1/2^128/2^255, random bytes, inner messages decoded directly): whenever the decoder accepts, the independent re-encoding of its result must equal the input; panics are caught and reported. distinct = (mutation class, decoder outcome, input length in words) / (wrapper, inner kind, length)"));
}
