//! C11 — token ids are deterministic and write-once; deployed tokens stay ITS-mintable.
//! Id algebra over several service instances, registry write-once sweep after every operation,
//! configuration read-back of every deployed token (which runs the tree's token code) and a
//! behavioural probe: an approved inbound transfer to each freshly deployed token.

use crate::gw::*;
use crate::its::*;
use crate::oracle::*;
use crate::report::Report;
use crate::rng::Rng;
use crate::tok::*;
use crate::univ::*;
use crate::Ctx;
use interchain_token::InterchainTokenClient;
use interchain_token_service::{InterchainTokenService, InterchainTokenServiceClient};
use serde_json::json;
use soroban_sdk::{Address, BytesN, Env};
use std::collections::BTreeMap;

const SUPPLIES: [(&str, i128); 3] = [("negative", -5), ("zero", 0), ("positive", 1000)];
const MINTERS: [&str; 4] = ["none", "third-party", "deployer", "service"];
const OPS: &[&str] = &[
    "deploy-fresh",
    "deploy-same-deployer-salt-same-metadata",
    "deploy-same-deployer-salt-other-metadata",
    "deploy-same-salt-other-deployer",
    "register-canonical-fresh",
    "register-canonical-again",
    "remote-deploy-fresh",
    "remote-deploy-taken-locally",
    "remote-deploy-taken-canonically",
    "remote-deploy-taken-remotely",
    "deploy-local-taken-remotely",
];

fn hub_deploy_payload(origin: &[u8], id: &[u8; 32], name: &[u8], symbol: &[u8], decimals: u8, minter: &[u8]) -> Vec<u8> {
    MHubMsg {
        to_hub: false,
        chain: origin.to_vec(),
        inner: MItsMsg::Deploy { token_id: *id, name: name.to_vec(), symbol: symbol.to_vec(), decimals, minter: minter.to_vec() },
    }
    .encode()
}

fn hub_transfer_payload(origin: &[u8], id: &[u8; 32], source: &[u8], dest: &[u8], amount: u128, data: &[u8]) -> Vec<u8> {
    MHubMsg {
        to_hub: false,
        chain: origin.to_vec(),
        inner: MItsMsg::Transfer { token_id: *id, source: source.to_vec(), dest: dest.to_vec(), amount, amount_hi: 0, data: data.to_vec() },
    }
    .encode()
}

struct TokenFacts {
    token_id: [u8; 32],
    name: Vec<u8>,
    symbol: Vec<u8>,
    decimals: u32,
    owner: Address,
}

fn read_token(u: &mut U, t: &Address) -> Result<TokenFacts, String> {
    let t = t.clone();
    u.query(move |env| {
        let c = InterchainTokenClient::new(env, &t);
        let s2v = |s: soroban_sdk::String| {
            let mut b = vec![0u8; s.len() as usize];
            s.copy_into_slice(&mut b);
            b
        };
        Ok(TokenFacts {
            token_id: flat(c.try_token_id())?.to_array(),
            name: s2v(flat(c.try_name())?),
            symbol: s2v(flat(c.try_symbol())?),
            decimals: flat(c.try_decimals())?,
            owner: flat(c.try_owner())?,
        })
    })
}

fn is_minter(u: &mut U, t: &Address, a: &Address) -> bool {
    let (t, a) = (t.clone(), a.clone());
    u.query(move |env| InterchainTokenClient::new(env, &t).is_minter(&a))
}

/// Approved inbound transfer of 1 unit to `id`, rolled back. Ok(()) when it credited.
fn inbound_probe(w: &mut ItsWorld, id: &[u8; 32], token: &Address) -> Result<(), String> {
    let recipient = w.users[0].clone();
    let payload = hub_transfer_payload(b"ethereum", id, b"0xsender", &addr_bytes(&recipient), 1, b"");
    let mid = w.fresh_id();
    let hub = w.model.hub_address.clone();
    let ck = w.u.checkpoint();
    let gm = w.g.model.clone();
    let res = (|| {
        if !w.approve_for_its(HUB_CHAIN, &mid, &hub, &payload) {
            return Err("approval refused".to_string());
        }
        let before = balance(&mut w.u, token, &recipient);
        let o = w.do_execute(HUB_CHAIN, &mid, &hub, &payload);
        if let Err(e) = &o.res {
            return Err(format!("execute failed: {}", e));
        }
        let after = balance(&mut w.u, token, &recipient);
        if after != before + 1 {
            return Err(format!("recipient balance {} -> {}", before, after));
        }
        Ok(())
    })();
    w.u.restore(&ck);
    w.g.model = gm;
    res
}

pub fn run(ctx: &Ctx, rep: &mut Report) {
    let total = ctx.universes(960, 40000);
    let mut recipe_agree = 0u64;
    let mut recipe_differ = 0u64;
    for uni in ctx.my_universes(total) {
        let mut rng = ctx.rng_for(uni);
        rep.begin_universe(uni);
        if uni == 0 {
            // once per run: the history recorded under the pinned version, continued by the current code
            crate::legacy::run(rep, "C11");
        }
        let chain = rng.pick(&[b"stellar".to_vec(), b"stellar-testnet".to_vec(), b"s".to_vec()]).clone();
        let mut w = ItsWorld::new(&mut rng, &chain, b"hub-address", 4);
        w.u.blanket_ok = true;
        w.trust(b"ethereum");
        let third = w.u.principal();
        // ---------------------------------------------------------------- determinism twin
        // the same world built from the same random stream at another ledger sequence and time:
        // the same (deployer, salt) must give the same id and the same token address
        {
            let mut r1 = ctx.rng_for(uni ^ 0x7717);
            let mut r2 = r1.clone();
            let mut a = ItsWorld::new_at(&mut r1, &chain, b"hub-address", 2, 100, 1_000_000);
            let mut b = ItsWorld::new_at(&mut r2, &chain, b"hub-address", 2, 77_777, 1_900_000_000);
            let salt = rng.bytes32();
            let (da, db) = (a.users[0].clone(), b.users[0].clone());
            let oa = a.do_deploy(&da, &salt, b"Twin", b"TWN", 9, 5, None, Auth::Only(vec![da.clone()]));
            let ob = b.do_deploy(&db, &salt, b"Twin", b"TWN", 9, 5, None, Auth::Only(vec![db.clone()]));
            rep.eval("determinism-twin", &format!("twin|{}|{}", oa.ok(), ob.ok()), true);
            rep.count("determinism-twin");
            match (&oa.res, &ob.res) {
                (Ok(ia), Ok(ib)) => {
                    let ta = a.registry_entry(ia).map(|x| sc_addr(&x.0));
                    let tb = b.registry_entry(ib).map(|x| sc_addr(&x.0));
                    if sc_addr(&a.its) == sc_addr(&b.its) && sc_addr(&da) == sc_addr(&db) {
                        if ia != ib {
                            rep.violation("token-id-depends-on-ledger-state", "the same (chain name, deployer, salt) gave different ids at different ledger sequence / time".into());
                        } else if ta != tb {
                            rep.violation("token-address-depends-on-ledger-state", "the same service and id gave different token addresses at different ledger sequence / time".into());
                        }
                    } else {
                        rep.count("note:twin-worlds-not-address-identical");
                    }
                }
                (Ok(_), Err(_)) | (Err(_), Ok(_)) => {
                    rep.violation("deployment-outcome-depends-on-ledger-state", "the same deployment succeeded in one world and failed in its twin".into());
                }
                _ => {}
            }
        }
        // ---------------------------------------------------------------- id algebra
        {
            let env = w.u.env.clone();
            let other_chain: Vec<u8> = [chain.clone(), b"x".to_vec()].concat();
            let dummy = w.u.principal();
            let its_same = env.register(InterchainTokenService, (&w.owner, &dummy, &dummy, sstr(&env, b"h2"), sstr(&env, &chain), native_hash(&env)));
            let its_other = env.register(InterchainTokenService, (&w.owner, &dummy, &dummy, sstr(&env, b"hub-address"), sstr(&env, &other_chain), native_hash(&env)));
            // a chain name that differs from the first one in letter case only
            let case_chain: Vec<u8> = chain.iter().enumerate().map(|(i, b)| if i == 0 { b.to_ascii_uppercase() } else { *b }).collect();
            let its_case = env.register(InterchainTokenService, (&w.owner, &dummy, &dummy, sstr(&env, b"hub-address"), sstr(&env, &case_chain), native_hash(&env)));
            w.u.skip_events();
            let mut seen: BTreeMap<[u8; 32], String> = BTreeMap::new();
            let deployers = [w.users[0].clone(), w.users[1].clone(), w.its.clone()];
            let salts = [[0u8; 32], [1u8; 32], rng.bytes32()];
            let tokens = [w.gas.addr.clone(), w.users[2].clone()];
            let zero = addr_of(&env, &ZERO_ACCOUNT);
            let mut record = |rep: &mut Report, id: [u8; 32], label: String| -> bool {
                if let Some(prev) = seen.get(&id) {
                    if *prev != label {
                        rep.violation("token-id-collision", format!("{} and {} map to the same id {}", prev, label, hex(&id[..8])));
                        return false;
                    }
                }
                seen.insert(id, label);
                true
            };
            let mut ok = true;
            for (ci, (its_addr, cname)) in [(w.its.clone(), chain.clone()), (its_same.clone(), chain.clone()), (its_other.clone(), other_chain.clone()), (its_case.clone(), case_chain.clone())].iter().enumerate() {
                let c = InterchainTokenServiceClient::new(&env, its_addr);
                for (di, d) in deployers.iter().enumerate() {
                    for (si, s) in salts.iter().enumerate() {
                        let sb = BytesN::from_array(&env, s);
                        let ds = c.interchain_token_deploy_salt(d, &sb);
                        let ds2 = c.interchain_token_deploy_salt(d, &sb);
                        let id = c.interchain_token_id(&zero, &ds).to_array();
                        rep.eval("id-derivation", &format!("id|interchain|{}|{}|{}", ci, di, si), true);
                        if ds != ds2 {
                            rep.violation("token-id-not-deterministic", "deploy salt differs between two identical queries".into());
                            ok = false;
                        }
                        // label by the inputs the property names: (chain name, deployer, salt)
                        ok &= record(rep, id, format!("interchain({:?},deployer{},salt{})", lossy(cname), di, si));
                        if id == its_deploy_salt_id(cname, &sc_addr(d), s) {
                            recipe_agree += 1;
                        } else {
                            recipe_differ += 1;
                        }
                    }
                }
                for (ti, t) in tokens.iter().enumerate() {
                    let ds = c.canonical_token_deploy_salt(t);
                    let id = c.interchain_token_id(&zero, &ds).to_array();
                    rep.eval("id-derivation", &format!("id|canonical|{}|{}", ci, ti), true);
                    ok &= record(rep, id, format!("canonical({:?},token{})", lossy(cname), ti));
                    if id == its_token_id(&ZERO_ACCOUNT, &its_canonical_salt(cname, &sc_addr(t))) {
                        recipe_agree += 1;
                    } else {
                        recipe_differ += 1;
                    }
                }
            }
            if !ok {
                continue;
            }
        }
        // ---------------------------------------------------------------- deployments and collisions
        let mut local: Vec<(Address, [u8; 32], [u8; 32])> = Vec::new(); // (deployer, salt, id)
        let mut canon: Vec<(Address, [u8; 32])> = Vec::new();
        let mut remote: Vec<[u8; 32]> = Vec::new();
        let mut canon_taken_remotely: Vec<Address> = Vec::new();
        let mut alive = true;
        // one universe in six starts with many registrations (20 canonical tokens): what an id
        // resolves to must not depend on how many ids the service has seen
        if rng.chance(1, 6) {
            let admin = w.users[3].clone();
            for _ in 0..20 {
                let tok = make_token(&mut w.u, TokKind::Sac, &admin, &mut rng).addr;
                let view_id = w.view_canonical_id(&tok);
                let o = w.do_register_canonical(&tok);
                if let Ok(id) = o.res {
                    if id == view_id {
                        w.model.tokens.insert(id, TokenRec { id, addr: tok.clone(), mode: TokMode::Lock, name: vec![], symbol: vec![], decimals: 7, its_can_mint: false, minter: None });
                        canon.push((tok, id));
                    }
                }
            }
            rep.count("universe:many-registrations");
            if let Some(dd) = w.check_registry() {
                rep.violation("registry-entry-changed", dd);
                alive = false;
            }
        }
        let unknown_fns = unknown_entry_points("interchain-token-service", &["owner", "transfer_ownership", "version", "upgrade", "migrate"]);
        let mut opseq: Vec<&str> = OPS.to_vec();
        rng.shuffle(&mut opseq);
        opseq.insert(0, "deploy-fresh");
        opseq.insert(1, "register-canonical-fresh");
        opseq.insert(2, "remote-deploy-fresh");
        for _ in 0..4 {
            opseq.push("deploy-fresh");
        }
        for op in opseq {
            if !alive {
                break;
            }
            if rng.chance(1, 6) {
                let d = rng.ledger_jump();
                if w.u.advance(d) {
                    rep.step(format!("ledger advances by {}", d));
                    rep.count("advance-ledger");
                    if let Some(dd) = w.check_registry() {
                        rep.violation("registry-changed-by-passing-time", dd);
                        alive = false;
                        continue;
                    }
                }
            }
            if rng.chance(1, 12) {
                let ia = w.its.clone();
                if w.u.upgrade_and_migrate(&ia).is_ok() {
                    rep.step("the service is upgraded to the same code and migrated".into());
                    rep.count("upgrade-and-migrate");
                    if let Some(dd) = w.check_registry() {
                        rep.violation("registry-changed-by-upgrade-and-migrate", dd);
                        alive = false;
                        continue;
                    }
                }
            }
            let (sname, supply) = *rng.pick(&SUPPLIES);
            let mclass = *rng.pick(&MINTERS);
            let deployer = w.users[rng.usize(2)].clone();
            // entry points of the service this workload does not know, used by a deployer (everybody
            // asked signs) with a salt and a token at hand. If one of them takes an id, that id is
            // registered like any other: a local deployment for it must fail, and what it resolves to
            // must never change (the sweep after every operation).
            if !unknown_fns.is_empty() && rng.chance(1, 3) {
                let admin = w.users[3].clone();
                let tok = make_token(&mut w.u, if rng.chance(1, 2) { TokKind::Sac } else { TokKind::Native }, &admin, &mut rng).addr;
                let usalt = rng.bytes32();
                let env = w.u.env.clone();
                let sv = soroban_sdk::BytesN::from_array(&env, &usalt);
                let tuples: Vec<soroban_sdk::Vec<soroban_sdk::Val>> = {
                    use soroban_sdk::IntoVal;
                    vec![
                        (deployer.clone(), sv.clone(), tok.clone()).into_val(&env),
                        (deployer.clone(), tok.clone(), sv.clone()).into_val(&env),
                        (deployer.clone(), sv.clone()).into_val(&env),
                        (deployer.clone(), tok.clone()).into_val(&env),
                        (tok.clone(),).into_val(&env),
                    ]
                };
                let its = w.its.clone();
                let n = w.u.try_unknown(&its, &unknown_fns, &tuples, &Auth::AsRecorded);
                rep.count("unknown-entry-point-tried");
                if n > 0 {
                    rep.count("note:unknown-entry-point-accepted-a-call");
                    for id in [w.view_token_id(&deployer, &usalt), w.view_canonical_id(&tok)] {
                        if w.model.tokens.contains_key(&id) {
                            continue;
                        }
                        if let Some((addr, ty)) = w.registry_entry(&id) {
                            rep.step(format!("an entry point outside the pinned interface registered id {} (manager type {})", hex(&id[..6]), ty));
                            let mode = if ty == 0 { TokMode::Native } else { TokMode::Lock };
                            w.model.tokens.insert(id, TokenRec { id, addr, mode, name: vec![], symbol: vec![], decimals: 0, its_can_mint: ty == 0, minter: None });
                            if id == w.view_token_id(&deployer, &usalt) {
                                // the same deployer and salt again, through the ordinary entry point
                                let o = w.do_deploy(&deployer, &usalt, b"Again", b"AGN", 7, 0, None, Auth::Only(vec![deployer.clone()]));
                                rep.eval("deploy-after-unknown-entry-point", &format!("deploy-after-unknown|{}", o.ok()), true);
                                if o.ok() {
                                    rep.violation("taken-id-redeployed:after-an-unknown-entry-point", "a local deployment for an id that another entry point had registered succeeded".into());
                                    alive = false;
                                }
                            }
                        }
                    }
                    if !alive {
                        continue;
                    }
                    if let Some(dd) = w.check_registry() {
                        rep.violation("registry-entry-changed", dd);
                        alive = false;
                        continue;
                    }
                }
            }
            let minter: Option<Address> = match mclass {
                "none" => None,
                "third-party" => Some(third.clone()),
                "deployer" => Some(deployer.clone()),
                _ => Some(w.its.clone()),
            };
            let name: Vec<u8> = rng.pick(&[b"Token A".to_vec(), "Жетон 🪙".as_bytes().to_vec(), b"t".to_vec(), vec![b'N'; 33], "Длинное имя жетона, длиннее тридцати двух байт".as_bytes().to_vec(), vec![b'n'; 200]]).clone();
            let symbol: Vec<u8> = rng.pick(&[b"TKA".to_vec(), b"T".to_vec(), vec![b'S'; 33], vec![b's'; 100]]).clone();
            let decimals: u32 = *rng.pick(&[0u32, 7, 18, 255]);
            // now and then: a local deployment with metadata the token cannot represent; the
            // statement does not say whether the service or the token refuses, but nothing may remain
            if op == "deploy-fresh" && rng.chance(1, 6) {
                let (bn, bs, bd): (Vec<u8>, Vec<u8>, u32) = match rng.below(3) {
                    0 => (vec![], b"S".to_vec(), 7),
                    1 => (b"N".to_vec(), vec![], 7),
                    _ => (b"N".to_vec(), b"S".to_vec(), 256),
                };
                let bsalt = rng.bytes32();
                let o = w.do_deploy(&deployer, &bsalt, &bn, &bs, bd, 10, None, Auth::Only(vec![deployer.clone()]));
                rep.count("op:deploy-unrepresentable-metadata");
                rep.eval("deploy-unrepresentable-metadata", &format!("badmeta|{}|{}", bd, o.ok()), true);
                if let Some(l) = &o.leak {
                    rep.violation("failed-deployment-left-trace:unrepresentable-metadata", l.clone());
                    alive = false;
                    continue;
                }
                if o.ok() {
                    // accepted: then the token must report exactly what was requested
                    let id = o.res.clone().unwrap();
                    if let Some((addr, _)) = w.registry_entry(&id) {
                        match read_token(&mut w.u, &addr) {
                            Ok(f) if f.name == bn && f.symbol == bs && f.decimals == bd => {}
                            _ => {
                                rep.violation("deployed-token-config:metadata", "token deployed with unrepresentable metadata reports something else".into());
                                alive = false;
                                continue;
                            }
                        }
                        w.model.tokens.insert(id, TokenRec { id, addr, mode: TokMode::Native, name: bn, symbol: bs, decimals: bd, its_can_mint: true, minter: None });
                    }
                }
            }
            match op {
                "deploy-fresh" | "deploy-same-deployer-salt-same-metadata" | "deploy-same-deployer-salt-other-metadata" | "deploy-same-salt-other-deployer" | "deploy-local-taken-remotely" => {
                    let (dep, salt, taken, cfg): (Address, [u8; 32], bool, String) = match op {
                        "deploy-fresh" => (deployer.clone(), rng.bytes32(), false, format!("{}+{}", sname, mclass)),
                        "deploy-same-salt-other-deployer" => match local.first() {
                            Some((d, s, _)) => {
                                let other = w.users.iter().find(|x| *x != d).unwrap().clone();
                                let already = local.iter().any(|(d2, s2, _)| *d2 == other && s2 == s);
                                (other, *s, already, format!("{}+{}", sname, mclass))
                            }
                            None => continue,
                        },
                        "deploy-local-taken-remotely" => {
                            // a remote deploy message claims the id a local deployment would get
                            let salt = rng.bytes32();
                            let id = w.view_token_id(&deployer, &salt);
                            let payload = hub_deploy_payload(b"ethereum", &id, b"Remote", b"RMT", 6, b"");
                            let mid = w.fresh_id();
                            let hub = w.model.hub_address.clone();
                            w.prime_for(&id);
                            if !w.approve_for_its(HUB_CHAIN, &mid, &hub, &payload) {
                                rep.foreign("honest-approval-refused");
                                alive = false;
                                continue;
                            }
                            let o = w.do_execute(HUB_CHAIN, &mid, &hub, &payload);
                            if !o.ok() {
                                rep.foreign("setup-remote-deploy-refused");
                                alive = false;
                                continue;
                            }
                            let addr = w.token_addr(&id);
                            w.model.tokens.insert(id, TokenRec { id, addr, mode: TokMode::Native, name: b"Remote".to_vec(), symbol: b"RMT".to_vec(), decimals: 6, its_can_mint: true, minter: None });
                            remote.push(id);
                            (deployer.clone(), salt, true, format!("{}+{}", sname, mclass))
                        }
                        _ => match local.last() {
                            Some((d, s, _)) => (d.clone(), *s, true, format!("{}+{}", sname, mclass)),
                            None => continue,
                        },
                    };
                    let (nm, sy) = if op == "deploy-same-deployer-salt-other-metadata" { (b"Other".to_vec(), b"OTH".to_vec()) } else { (name.clone(), symbol.clone()) };
                    let view_id = w.view_token_id(&dep, &salt);
                    rep.step(format!("{} cfg={} taken={}", op, cfg, taken));
                    // the deployer's authorisation for exactly this deployment must not let a third
                    // party obtain minting rights, other metadata or another supply under the same id
                    if !taken && rng.chance(1, 2) {
                        let forest = w.record_deploy(&dep, &salt, &nm, &sy, decimals, supply, minter.clone());
                        let ck = w.u.checkpoint();
                        let gm = w.g.model.clone();
                        let (h_min, h_nm, h_dec, h_sup, what) = match rng.below(4) {
                            0 => (Some(third.clone()), nm.clone(), decimals, supply, "minter"),
                            1 => (minter.clone(), b"Hijacked".to_vec(), decimals, supply, "name"),
                            2 => (minter.clone(), nm.clone(), if decimals == 7 { 8 } else { 7 }, supply, "decimals"),
                            _ => (minter.clone(), nm.clone(), decimals, supply.saturating_add(1_000), "supply"),
                        };
                        if h_min != minter || what != "minter" {
                            let o = w.do_deploy(&dep, &salt, &h_nm, &sy, h_dec, h_sup, h_min, Auth::Forest(forest));
                            rep.count("op:deploy-with-authorisation-for-other-arguments");
                            rep.eval("deploy-hijack", &format!("hijack|{}|{}", what, o.ok()), true);
                            let leak = o.leak.clone();
                            w.u.restore(&ck);
                            w.g.model = gm;
                            if let Some(l) = leak {
                                rep.violation("failed-deployment-left-trace:hijack", l);
                                alive = false;
                                continue;
                            }
                            if o.ok() {
                                rep.violation(&format!("deployed-with-undesignated:{}", what), format!("a deployment with another {} went through on the deployer's authorisation for the original arguments", what));
                                alive = false;
                                continue;
                            }
                        }
                    }
                    let o = w.do_deploy(&dep, &salt, &nm, &sy, decimals, supply, minter.clone(), Auth::Only(vec![dep.clone()]));
                    rep.count(&format!("op:{}", op));
                    if !taken {
                        rep.count(&format!("config:{}+{}", sname, mclass));
                    }
                    rep.eval(op, &format!("{}|{}|{}|{}", op, cfg, taken, o.ok()), true);
                    if rep.samples.len() < 5 && rng.chance(1, 20) {
                        rep.sample(json!({"op": op, "supply": supply.to_string(), "minter": mclass, "decimals": decimals, "id_taken": taken, "accepted": o.ok()}));
                    }
                    if let Some(l) = &o.leak {
                        rep.violation(&format!("failed-deployment-left-trace:{}", op), l.clone());
                        alive = false;
                        continue;
                    }
                    if taken {
                        if o.ok() {
                            rep.violation(&format!("taken-id-redeployed:{}", op), format!("deployment for an id that is already registered succeeded ({})", op));
                            alive = false;
                        }
                    } else {
                        let silent = sname == "negative" || mclass == "service";
                        if !o.ok() {
                            if !silent {
                                rep.violation(&format!("deployment-refused:{}", cfg), format!("deploy_interchain_token({}) failed: {:?}", cfg, o.res));
                                alive = false;
                            }
                            continue;
                        }
                        let id = o.res.clone().unwrap();
                        if id != view_id {
                            rep.violation("returned-id-differs-from-view", format!("deploy returned {}, the id views give {}", hex(&id[..8]), hex(&view_id[..8])));
                            alive = false;
                            continue;
                        }
                        let entry = w.registry_entry(&id);
                        let addr = match entry {
                            Some((a, 0)) => a,
                            other => {
                                rep.violation("deployed-token-not-registered", format!("registry entry after deployment: {:?}", other.map(|x| x.1)));
                                alive = false;
                                continue;
                            }
                        };
                        if addr != w.predicted_token_address(&id) {
                            rep.count("note:address-differs-from-host-derivation");
                        }
                        let eff_minter = minter.clone().filter(|m| *m != w.its);
                        let its_can_mint = !(supply > 0 && eff_minter.is_some());
                        w.model.tokens.insert(id, TokenRec { id, addr: addr.clone(), mode: TokMode::Native, name: nm.clone(), symbol: sy.clone(), decimals, its_can_mint, minter: eff_minter.clone() });
                        local.push((dep.clone(), salt, id));
                        // configuration read-back
                        match read_token(&mut w.u, &addr) {
                            Err(e) => {
                                rep.violation("deployed-token-unreadable", e);
                                alive = false;
                                continue;
                            }
                            Ok(f) => {
                                let mut bad = Vec::new();
                                if f.token_id != id {
                                    bad.push("token_id");
                                }
                                if f.name != nm || f.symbol != sy || f.decimals != decimals {
                                    bad.push("metadata");
                                }
                                if f.owner != w.its {
                                    bad.push("owner");
                                }
                                let b = balance(&mut w.u, &addr, &dep);
                                if b != supply.max(0) {
                                    bad.push("initial-supply");
                                }
                                if let Some(m) = &eff_minter {
                                    if !is_minter(&mut w.u, &addr, m) {
                                        bad.push("designated-minter-missing");
                                    }
                                }
                                if eff_minter.as_ref() != Some(&dep) && is_minter(&mut w.u, &addr, &dep) {
                                    bad.push("deployer-is-minter");
                                }
                                let stranger = w.stranger.clone();
                                if is_minter(&mut w.u, &addr, &stranger) {
                                    bad.push("stranger-is-minter");
                                }
                                if eff_minter.as_ref() != Some(&third) && is_minter(&mut w.u, &addr, &third) {
                                    bad.push("third-party-is-minter");
                                }
                                if !bad.is_empty() {
                                    rep.violation(&format!("deployed-token-config:{}", bad.join("+")), format!("token deployed with {}: wrong {}", cfg, bad.join(", ")));
                                    alive = false;
                                    continue;
                                }
                            }
                        }
                        // behavioural probe: the service can mint for an inbound transfer
                        match inbound_probe(&mut w, &id, &addr) {
                            Ok(()) => rep.count("inbound-probe-ok"),
                            Err(e) => {
                                let s = if supply > 0 { "supply>0" } else { "supply<=0" };
                                let m = if eff_minter.is_some() { "minter" } else { "no-minter" };
                                rep.violation(&format!("inbound-mint-fails:{}+{}", s, m), format!("approved inbound transfer to a token deployed with {} failed: {}", cfg, e));
                            }
                        }
                    }
                }
                "register-canonical-fresh" | "register-canonical-again" => {
                    let (tok, again) = if op == "register-canonical-again" {
                        // registered before, or its id was taken by a remote deploy message
                        let pick_remote = !canon_taken_remotely.is_empty() && (canon.is_empty() || rng.chance(1, 2));
                        if pick_remote {
                            let t = canon_taken_remotely.last().unwrap().clone();
                            // only if that remote deployment really took the id
                            let cid = w.view_canonical_id(&t);
                            if !w.model.tokens.contains_key(&cid) {
                                continue;
                            }
                            rep.count("register-canonical-taken-remotely");
                            (t, true)
                        } else {
                            match canon.last() {
                                Some((t, _)) => (t.clone(), true),
                                None => continue,
                            }
                        }
                    } else {
                        let admin = w.users[3].clone();
                        let kind = if rng.chance(1, 2) { TokKind::Sac } else { TokKind::Native };
                        (make_token(&mut w.u, kind, &admin, &mut rng).addr, false)
                    };
                    let view_id = w.view_canonical_id(&tok);
                    let o = w.do_register_canonical(&tok);
                    rep.count(&format!("op:{}", op));
                    rep.eval(op, &format!("{}|{}", op, o.ok()), true);
                    rep.step(format!("{} -> {:?}", op, o.res.as_ref().map(|i| hex(&i[..6]))));
                    if let Some(l) = &o.leak {
                        rep.violation("failed-registration-left-trace", l.clone());
                        alive = false;
                        continue;
                    }
                    if again == o.ok() {
                        rep.violation(
                            &format!("canonical-registration-{}", if again { "repeated" } else { "refused" }),
                            format!("register_canonical_token ({}) -> ok={}", op, o.ok()),
                        );
                        alive = false;
                        continue;
                    }
                    if o.ok() {
                        let id = o.res.clone().unwrap();
                        if id != view_id {
                            rep.violation("returned-id-differs-from-view", "canonical registration".into());
                            alive = false;
                            continue;
                        }
                        w.model.tokens.insert(id, TokenRec { id, addr: tok.clone(), mode: TokMode::Lock, name: vec![], symbol: vec![], decimals: 0, its_can_mint: false, minter: None });
                        canon.push((tok, id));
                    }
                }
                _ => {
                    // remote deploy messages
                    let (id, taken): ([u8; 32], bool) = match op {
                        "remote-deploy-fresh" => {
                            if rng.chance(1, 3) {
                                // the id a not yet registered token would get as a canonical token
                                let admin = w.users[3].clone();
                                let kind = if rng.chance(1, 2) { TokKind::Sac } else { TokKind::Native };
                                let t = make_token(&mut w.u, kind, &admin, &mut rng).addr;
                                let cid = w.view_canonical_id(&t);
                                canon_taken_remotely.push(t);
                                rep.count("remote-deploy-for-a-canonical-id");
                                (cid, false)
                            } else {
                                (rng.bytes32(), false)
                            }
                        }
                        "remote-deploy-taken-locally" => match local.last() {
                            Some((_, _, id)) => (*id, true),
                            None => continue,
                        },
                        "remote-deploy-taken-canonically" => match canon.last() {
                            Some((_, id)) => (*id, true),
                            None => continue,
                        },
                        _ => match remote.last() {
                            Some(id) => (*id, true),
                            None => continue,
                        },
                    };
                    let rminter: Option<Address> = match mclass {
                        "none" | "service" => None,
                        "third-party" => Some(third.clone()),
                        _ => Some(deployer.clone()),
                    };
                    let mbytes = rminter.as_ref().map(addr_bytes).unwrap_or_default();
                    let dec8 = decimals as u8;
                    let payload = hub_deploy_payload(b"ethereum", &id, &name, &symbol, dec8, &mbytes);
                    let mid = w.fresh_id();
                    let hub = w.model.hub_address.clone();
                    w.prime_for(&id);
                    if !w.approve_for_its(HUB_CHAIN, &mid, &hub, &payload) {
                        rep.foreign("honest-approval-refused");
                        alive = false;
                        continue;
                    }
                    let o = w.do_execute(HUB_CHAIN, &mid, &hub, &payload);
                    rep.count(&format!("op:{}", op));
                    rep.eval(op, &format!("{}|{}|{}", op, rminter.is_some(), o.ok()), true);
                    rep.step(format!("{} id={} minter={} -> ok={}", op, hex(&id[..6]), mclass, o.ok()));
                    if let Some(l) = &o.leak {
                        rep.violation(&format!("failed-remote-deploy-left-trace:{}", op), l.clone());
                        alive = false;
                        continue;
                    }
                    if taken == o.ok() {
                        if taken {
                            rep.violation(&format!("taken-id-redeployed:{}", op), "a remote deploy message for a registered id was executed".into());
                        } else {
                            // whether a conforming remote deploy message is executed belongs to C04
                            rep.foreign("remote-deployment-refused");
                        }
                        alive = false;
                        continue;
                    }
                    if o.ok() {
                        w.g.model.apply_consume(&MMessage { source_chain: HUB_CHAIN.to_vec(), message_id: mid.clone(), source_address: hub.clone(), contract: w.its_sc.clone(), payload_hash: keccak(&payload) });
                        let addr = match w.registry_entry(&id) {
                            Some((a, 0)) => a,
                            _ => {
                                rep.violation("deployed-token-not-registered", "after a remote deploy message".into());
                                alive = false;
                                continue;
                            }
                        };
                        w.model.tokens.insert(id, TokenRec { id, addr: addr.clone(), mode: TokMode::Native, name: name.clone(), symbol: symbol.clone(), decimals: dec8 as u32, its_can_mint: true, minter: rminter.clone() });
                        remote.push(id);
                        match read_token(&mut w.u, &addr) {
                            Err(e) => {
                                rep.violation("deployed-token-unreadable", e);
                                alive = false;
                                continue;
                            }
                            Ok(f) => {
                                let mut bad = Vec::new();
                                if f.token_id != id {
                                    bad.push("token_id");
                                }
                                if f.name != name || f.symbol != symbol || f.decimals != dec8 as u32 {
                                    bad.push("metadata");
                                }
                                if f.owner != w.its {
                                    bad.push("owner");
                                }
                                if let Some(m) = &rminter {
                                    if !is_minter(&mut w.u, &addr, m) {
                                        bad.push("designated-minter-missing");
                                    }
                                }
                                let stranger = w.stranger.clone();
                                if is_minter(&mut w.u, &addr, &stranger) {
                                    bad.push("stranger-is-minter");
                                }
                                if !bad.is_empty() {
                                    rep.violation(&format!("remote-deployed-token-config:{}", bad.join("+")), format!("wrong {}", bad.join(", ")));
                                    alive = false;
                                    continue;
                                }
                            }
                        }
                        match inbound_probe(&mut w, &id, &addr) {
                            Ok(()) => rep.count("inbound-probe-ok"),
                            Err(e) => rep.violation("inbound-mint-fails:remote-deployed", e),
                        }
                    }
                }
            }
            if !alive {
                break;
            }
            if let Some(d) = w.check_registry() {
                rep.violation("registry-entry-changed", d);
                alive = false;
            }
        }
    }
    let mut req: Vec<String> = OPS.iter().map(|o| format!("op:{}", o)).collect();
    for (s, _) in SUPPLIES {
        for m in MINTERS {
            req.push(format!("config:{}+{}", s, m));
        }
    }
    req.push("inbound-probe-ok".into());
    req.push("op:deploy-unrepresentable-metadata".into());
    req.push("determinism-twin".into());
    req.push("advance-ledger".into());
    rep.notes.insert("required".into(), json!(req));
    rep.notes.insert("n_recipe_agrees_with_documented_derivation".into(), json!(recipe_agree));
    rep.notes.insert("n_recipe_differs_from_documented_derivation".into(), json!(recipe_differ));
    rep.notes.insert("token_mode".into(), json!("native (service constructed with the native marker hash; deployed tokens run the tree's interchain-token code)"));
    rep.notes.insert("rule".into(), json!("per universe: a determinism twin (the same world rebuilt from the same random stream at another ledger sequence and timestamp must give the same id and the same token address for the same deployer and salt); id algebra over four service instances (same chain name, a longer one, one differing in letter case only) (same chain name twice, another chain name) x 3 deployers x 3 salts x 2 canonical tokens: determinism, equality across instances with equal chain name, no collision between different inputs or kinds (the exact documented recipe is recorded as a note, not a verdict); then 15+ operations: local deployments over all 12 (supply in {-5,0,1000}) x (minter in {none, third party, deployer, service}) configurations, colliding redeployments (same deployer+salt with same/other metadata), same salt from another deployer, canonical registration (asset contract / interchain token) once and again, remote deploy messages for fresh ids and for ids taken locally / canonically / remotely, local deployment of an id taken remotely; after every operation every registered id is re-read (address and manager type never change); every deployed token is read back (token_id, metadata, owner, deployer balance, minter flags) and receives an approved inbound transfer of 1 unit at a checkpoint. distinct = (op, configuration, id taken, outcome)"));
}

fn its_deploy_salt_id(chain: &[u8], deployer: &soroban_sdk::xdr::ScAddress, salt: &[u8; 32]) -> [u8; 32] {
    its_token_id(&ZERO_ACCOUNT, &its_deploy_salt(chain, deployer, salt))
}
