//! C08 — old signer sets stay valid for exactly the configured number of rotations.
//! Exhaustive within bounds: retention x number of initial sets x every rotation history of the
//! given length over {normal by newest, bypass by oldest retained, bypass by newest}; after
//! deployment and after every rotation EVERY installed set is probed on all paths (standalone
//! proof check, approval, bypass rotation, plain rotation) at a checkpoint that is rolled back.

use crate::gw::*;
use crate::oracle::*;
use crate::report::Report;
use crate::rng::Rng;
use crate::univ::*;
use crate::Ctx;
use serde_json::json;

const KINDS: [&str; 3] = ["normal-newest", "bypass-oldest-retained", "bypass-newest"];

struct W {
    /// one honest standalone proof per installed set, made when the set was installed and
    /// re-submitted byte for byte at every later step
    kept: Vec<([u8; 32], ProofPlan)>,
    /// one approved batch per installed set, approved when the set was installed; the identical
    /// approval call is repeated at every later step
    kept_batches: Vec<(Vec<MMessage>, ProofPlan)>,
    operator: soroban_sdk::Address,
    u: U,
    ring: KeyRing,
    g: Gw,
    /// long histories: probe a sample of the installed sets at every step instead of all of them
    sample: bool,
    ctr: u64,
}

fn probe_all(ctx: &Ctx, rep: &mut Report, w: &mut W, rng: &mut Rng) -> bool {
    let m = w.g.model.clone();
    let cur = m.epoch();
    while w.kept.len() < m.sets.len() {
        let i = w.kept.len();
        let dh = rng.bytes32();
        let plan = plan_honest(&w.ring, &m.domain, &m.sets[i], &dh, &all_slots(&m.sets[i]));
        w.kept.push((dh, plan));
    }
    while w.kept_batches.len() < m.sets.len() {
        let i = w.kept_batches.len();
        w.ctr += 1;
        let msg = MMessage {
            source_chain: b"chain".to_vec(),
            message_id: format!("kept-{}-{}", i, w.ctr).into_bytes(),
            source_address: b"src".to_vec(),
            contract: w.g.sc.clone(),
            payload_hash: rng.bytes32(),
        };
        let plan = plan_honest(&w.ring, &m.domain, &m.sets[i], &approve_data_hash(&[msg.clone()]), &all_slots(&m.sets[i]));
        w.kept_batches.push((vec![msg], plan));
    }
    // which sets to probe: all of them, or (long histories) the two oldest, the two newest, those
    // around the retention boundary, those 14..18 and 30..34 epochs back, and three random ones
    let n_sets = m.sets.len();
    let mut chosen: Vec<bool> = vec![!(w.sample && n_sets > 8); n_sets];
    if w.sample && n_sets > 8 {
        for i in 0..n_sets {
            let gap = cur - (i as u64 + 1);
            let near_boundary = gap == m.retention || gap + 1 == m.retention || gap == m.retention.saturating_add(1);
            if i < 2 || i + 2 >= n_sets || near_boundary || (14..=18).contains(&gap) || (30..=34).contains(&gap) {
                chosen[i] = true;
            }
        }
        for _ in 0..3 {
            chosen[rng.usize(n_sets)] = true;
        }
    }
    for (i, set) in m.sets.iter().enumerate() {
        if !chosen[i] {
            continue;
        }
        let e = i as u64 + 1;
        let gap = cur - e;
        let retained = gap <= m.retention;
        {
            // the identical approval call (same batch, same proof): honoured while the set is retained
            // (it changes nothing the second time), refused afterwards
            let (msgs, plan) = w.kept_batches[i].clone();
            let o = w.g.do_approve(&mut w.u, &msgs, &plan);
            if o.ok() {
                w.g.model.apply_approve(&msgs);
            }
            rep.eval("approve_messages-identical-earlier-call", &format!("keptb|ret={}|gap={}|{}", m.retention.min(99), gap, o.ok()), true);
            if o.ok() != retained {
                rep.violation(
                    &format!("{}:approve_messages-identical-earlier-call", if o.ok() { "honoured-expired-set" } else { "refused-retained-set" }),
                    format!("the identical approval call authorised by the set of epoch {} repeated at epoch {} (gap {}, retention {}): accepted={}, expected {}", e, cur, gap, m.retention, o.ok(), retained),
                );
                return false;
            }
        }
        {
            // the identical proof that was (or would have been) accepted earlier
            let (dh, plan) = w.kept[i].clone();
            let g = &w.g;
            let o = w.u.call_keep(|u| g.do_validate_proof(u, &dh, &plan));
            rep.eval("validate_proof-identical-earlier-proof", &format!("kept|ret={}|gap={}|{}", m.retention.min(99), gap, o.ok()), true);
            if o.ok() != retained {
                rep.violation(
                    &format!("{}:validate_proof-identical-earlier-proof", if o.ok() { "honoured-expired-set" } else { "refused-retained-set" }),
                    format!("the byte-identical proof of the set of epoch {} submitted again at epoch {} (gap {}, retention {}): accepted={}, expected {}", e, cur, gap, m.retention, o.ok(), retained),
                );
                return false;
            }
        }
        for path in ["validate_proof", "approve_messages", "rotate-bypass", "rotate-plain"] {
            w.ctr += 1;
            let (ok, detail): (bool, String) = match path {
                "validate_proof" => {
                    let dh = rng.bytes32();
                    let plan = plan_honest(&w.ring, &m.domain, set, &dh, &all_slots(set));
                    let g = &w.g;
                    let o = w.u.probe(|u| g.do_validate_proof(u, &dh, &plan));
                    if let Ok(flag) = &o.res {
                        if *flag != (e == cur) {
                            // not part of the statement; the plain-rotation probe below decides
                            rep.count("note:validate_proof-flag-differs-from-newest");
                        }
                    }
                    (o.ok(), format!("{:?}", o.res))
                }
                "approve_messages" => {
                    let msg = MMessage {
                        source_chain: b"chain".to_vec(),
                        message_id: format!("probe-{}", w.ctr).into_bytes(),
                        source_address: b"src".to_vec(),
                        contract: w.g.sc.clone(),
                        payload_hash: rng.bytes32(),
                    };
                    let plan = plan_honest(&w.ring, &m.domain, set, &approve_data_hash(&[msg.clone()]), &all_slots(set));
                    let g = &w.g;
                    let o = w.u.probe(|u| {
                        let o = g.do_approve(u, &[msg.clone()], &plan);
                        o
                    });
                    (o.ok(), format!("{:?}", o.res))
                }
                _ => {
                    // the proposed set is a fresh one, or the signing set itself under a new nonce
                    let cand = if rng.chance(1, 3) {
                        let mut c = set.clone();
                        c.nonce = rng.bytes32();
                        c
                    } else {
                        gen_wellformed_set(rng, &mut w.ring, 2)
                    };
                    let plan = plan_honest(&w.ring, &m.domain, set, &cand.rotation_data_hash(), &all_slots(set));
                    let bypass = path == "rotate-bypass";
                    let g = &w.g;
                    let o = w.u.probe(|u| {
                        g.do_rotate(u, &cand, &plan, bypass, if bypass { Auth::Only(vec![w.operator.clone()]) } else { Auth::Nobody })
                    });
                    (o.ok(), format!("{:?}", o.res))
                }
            };
            let want = if path == "rotate-plain" { e == cur } else { retained };
            rep.eval(
                path,
                &format!("{}|ret={}|gap={}|init={}|{}", path, m.retention.min(99), gap, 0, ok),
                true,
            );
            if ok != want {
                let sig = if path == "rotate-plain" {
                    if ok {
                        "non-newest-set-authorised-plain-rotation".to_string()
                    } else {
                        "newest-set-refused-plain-rotation".to_string()
                    }
                } else if ok {
                    format!("honoured-expired-set:{}", path)
                } else {
                    format!("refused-retained-set:{}", path)
                };
                rep.step(format!("probe {} epoch {} of {} (gap {}, retention {}): ok={} want={} {}", path, e, cur, gap, m.retention, ok, want, detail));
                rep.violation(
                    &sig,
                    format!("{} with a proof by the set of epoch {} at current epoch {} (gap {}, retention {}): accepted={}, expected {}", path, e, cur, gap, m.retention, ok, want),
                );
                return false;
            }
        }
    }
    true
}

pub fn run(ctx: &Ctx, rep: &mut Report) {
    let retentions: Vec<u64> = if ctx.thorough() { vec![0, 1, 2, 3, 4, 10, 1 << 40, u64::MAX - 2, u64::MAX] } else { vec![0, 1, 2, u64::MAX - 1, u64::MAX] };
    let len: u32 = if ctx.thorough() { 7 } else { 4 };
    let seqs = 3u64.pow(len);
    let enumerated = retentions.len() as u64 * 3 * seqs;
    // plus long random histories (20..45 rotations) with retentions around and beyond 16
    let long_runs: u64 = if ctx.thorough() { 192 } else { 16 };
    let total = enumerated + long_runs;
    for uni in ctx.my_universes(total) {
        let mut rng = ctx.rng_for(uni);
        rep.begin_universe(uni);
        if uni == 0 {
            // once per run: the history recorded under the pinned version, continued by the current code
            crate::legacy::run(rep, "C08");
        }
        let long = uni >= enumerated;
        let retention = if long { *rng.pick(&[15u64, 16, 17, 20, 33, u64::MAX]) } else { retentions[(uni / (3 * seqs)) as usize % retentions.len()] };
        let n_init = 1 + ((uni / seqs) % 3) as usize;
        let mut code = uni % seqs;
        let len: u32 = if long { 20 + rng.below(26) as u32 } else { len };
        if long {
            rep.count("long-history");
        }
        let mut u = U::new();
        let mut ring = KeyRing::default();
        let owner = u.principal();
        let operator = u.principal();
        let initial: Vec<MSigners> = (0..n_init).map(|_| gen_wellformed_set(&mut rng, &mut ring, 3)).collect();
        let g = Gw::deploy(&mut u, &owner, &operator, rng.bytes32(), 0, retention, &initial);
        let mut w = W { kept: Vec::new(), kept_batches: Vec::new(), operator: operator.clone(), u, ring, g, ctr: 0, sample: long };
        rep.step(format!("world retention={} n_init={} code={}", retention, n_init, code));
        if !probe_all(ctx, rep, &mut w, &mut rng) {
            continue;
        }
        for step in 0..len {
            let kind = if long { KINDS[rng.usize(3)] } else { KINDS[(code % 3) as usize] };
            code /= 3;
            let m = w.g.model.clone();
            let cand = gen_wellformed_set(&mut rng, &mut w.ring, 3);
            let by = match kind {
                "bypass-oldest-retained" => {
                    let idx = (0..m.sets.len()).find(|i| m.epoch() - (*i as u64 + 1) <= m.retention).unwrap();
                    m.sets[idx].clone()
                }
                _ => m.sets.last().unwrap().clone(),
            };
            let bypass = kind != "normal-newest";
            let plan = plan_honest(&w.ring, &m.domain, &by, &cand.rotation_data_hash(), &all_slots(&by));
            if rng.chance(1, 5) {
                let d = rng.ledger_jump();
                if w.u.advance(d) {
                    rep.step(format!("ledger advances by {}", d));
                    rep.count("advance-ledger");
                }
            }
            if rng.chance(1, 12) {
                let ga = w.g.addr.clone();
                if w.u.upgrade_and_migrate(&ga).is_ok() {
                    rep.step("the gateway is upgraded to the same code and migrated".into());
                    rep.count("upgrade-and-migrate");
                }
            }
            rep.step(format!("step {} {} (epoch {} -> {})", step, kind, m.epoch(), m.epoch() + 1));
            rep.count(kind);
            let o = w.g.do_rotate(&mut w.u, &cand, &plan, bypass, if bypass { Auth::Only(vec![w.operator.clone()]) } else { Auth::Nobody });
            w.g.model.note_hash(cand.hash());
            if !o.ok() {
                rep.violation(
                    &format!("history-rotation-refused:{}", kind),
                    format!("{} by a retained set refused at epoch {}: {:?}", kind, m.epoch(), o.res),
                );
                break;
            }
            let now = w.u.time();
            w.g.model.apply_rotate(&cand, now);
            if !probe_all(ctx, rep, &mut w, &mut rng) {
                break;
            }
        }
    }
    rep.exhaustive = Some(true);
    rep.notes.insert("required".into(), json!(["validate_proof", "validate_proof-identical-earlier-proof", "approve_messages-identical-earlier-call", "approve_messages", "rotate-bypass", "rotate-plain", "normal-newest", "bypass-oldest-retained", "bypass-newest"]));
    rep.notes.insert("bounds".into(), json!({"retentions": retentions.iter().map(|r| r.to_string()).collect::<Vec<_>>(), "initial_sets": [1, 2, 3], "history_length": len, "histories_per_config": seqs}));
    rep.notes.insert("rule".into(), json!("plus long random histories of 20..45 rotations with retention in {15, 16, 17, 20, 33, u64::MAX}, probing a sample of the installed sets (oldest, newest, around the retention boundary, 14..18 and 30..34 epochs back, three random) at every step; exhaustive within bounds: every (retention, number of initial sets, rotation history of the stated length over {normal by newest, bypass by oldest retained set, bypass by newest}); after deployment and after each rotation every installed set is probed with an honest all-signers proof on validate_proof, approve_messages, bypass rotation and plain rotation (each at a checkpoint, rolled back), and with the byte-identical standalone proof made when the set was installed (not rolled back, so that anything remembered about it persists); expectation: honoured iff current_epoch - epoch <= retention (plain rotation: iff newest). distinct = (path, retention, epoch gap, outcome)"));
}
