//! C15 — owner-only upgrades, one migration per upgrade, all-or-nothing Upgrader.
//! (A) window model on every upgradable contract, run natively (upgrade to the native marker
//! hash keeps the tree's code in place): all sequences over {upgrade, migrate} x {owner, former
//! owner, stranger, nobody} of bounded length. (B) real code swap to committed Wasm binaries.
//! (C) Upgrader combinations: requested version x authorisation coverage x migration data.

use crate::gw::*;
use crate::oracle::*;
use crate::probes::vtarget::{VersionedTarget, VersionedTargetClient};
use crate::report::Report;
use crate::rng::Rng;
use crate::tok::metadata;
use crate::univ::*;
use crate::Ctx;
use axelar_gas_service::AxelarGasService;
use axelar_operators::AxelarOperators;
use axelar_soroban_std::interfaces::{OwnableClient, UpgradableClient};
use interchain_token::InterchainToken;
use interchain_token_service::InterchainTokenService;
use serde_json::json;
use soroban_sdk::xdr::ScVal;
use soroban_sdk::{Address, Bytes, BytesN, Env, IntoVal, String as SString, Symbol, Val, Vec as SVec};
use upgrader::{Upgrader, UpgraderClient};

const KINDS: [&str; 6] = ["gateway", "gas-service", "operators", "its", "interchain-token", "versioned-target"];
const PRINCIPALS: [&str; 4] = ["owner", "former-owner", "stranger", "nobody"];

const TRIVIAL_WASM: &[u8] = include_bytes!("/repo/packages/axelar-soroban-std/src/interfaces/testdata/contract_trivial_migration.wasm");
const DUMMY_WASM: &[u8] = include_bytes!("/repo/contracts/upgrader/tests/testdata/dummy.wasm");

fn deploy(u: &mut U, kind: &str, owner: &Address, rng: &mut Rng) -> Address {
    let env = u.env.clone();
    let a = match kind {
        "gateway" => {
            let mut ring = KeyRing::default();
            let s = gen_wellformed_set(rng, &mut ring, 2);
            let op = u.principal();
            Gw::deploy(u, owner, &op, rng.bytes32(), 0, 1, &[s]).addr
        }
        "gas-service" => {
            let c = u.principal();
            env.register(AxelarGasService, (owner, &c))
        }
        "operators" => env.register(AxelarOperators, (owner,)),
        "its" => {
            let g = u.principal();
            let gs = u.principal();
            env.register(
                InterchainTokenService,
                (owner, &g, &gs, SString::from_str(&env, "hub"), SString::from_str(&env, "stellar"), native_hash(&env)),
            )
        }
        "interchain-token" => env.register(
            InterchainToken,
            (owner.clone(), None::<Address>, BytesN::from_array(&env, &rng.bytes32()), metadata(&env, b"T", b"T", 7)),
        ),
        _ => env.register(VersionedTarget, (owner,)),
    };
    u.skip_events();
    a
}

fn migrate_args(env: &Env, kind: &str) -> SVec<Val> {
    let mut v: SVec<Val> = SVec::new(env);
    if kind == "versioned-target" {
        v.push_back(SString::from_str(env, "2.0.0").to_val());
    } else {
        v.push_back(Val::VOID.to_val());
    }
    v
}

fn do_upgrade(u: &mut U, addr: &Address, hash: &BytesN<32>, auth: Auth) -> CallOut<()> {
    let (a, h) = (addr.clone(), hash.clone());
    u.call(auth, &move |env: &Env| flat(UpgradableClient::new(env, &a).try_upgrade(&h)))
}

fn do_migrate(u: &mut U, addr: &Address, kind: &'static str, auth: Auth) -> CallOut<()> {
    let a = addr.clone();
    u.call(auth, &move |env: &Env| {
        let args = migrate_args(env, kind);
        flat(env.try_invoke_contract::<Val, soroban_sdk::Error>(&a, &Symbol::new(env, "migrate"), args)).map(|_| ())
    })
}

fn version_of(u: &mut U, addr: &Address) -> Vec<u8> {
    let a = addr.clone();
    u.query(move |env| {
        let s = UpgradableClient::new(env, &a).version();
        let mut b = vec![0u8; s.len() as usize];
        s.copy_into_slice(&mut b);
        b
    })
}

fn owner_of(u: &mut U, addr: &Address) -> Address {
    let a = addr.clone();
    u.query(move |env| OwnableClient::new(env, &a).owner())
}

fn executable_of(u: &U, addr: &Address) -> Option<Vec<u8>> {
    let sc = sc_addr(addr);
    for (k, e, _) in u.snap() {
        if let soroban_sdk::xdr::LedgerKey::ContractData(cd) = k.as_ref() {
            if cd.contract == sc && matches!(cd.key, ScVal::LedgerKeyContractInstance) {
                if let soroban_sdk::xdr::LedgerEntryData::ContractData(d) = &e.data {
                    if let ScVal::ContractInstance(inst) = &d.val {
                        return Some(xdr_of_exec(&inst.executable));
                    }
                }
            }
        }
    }
    None
}

fn xdr_of_exec(e: &soroban_sdk::xdr::ContractExecutable) -> Vec<u8> {
    use soroban_sdk::xdr::WriteXdr;
    e.to_xdr(soroban_sdk::xdr::Limits::none()).unwrap()
}

/// Exactly one `upgraded` event from the contract carrying its version.
fn check_upgraded_event(rep: &mut Report, events: &[Ev], addr: &Address, version: &[u8], what: &str) -> bool {
    let sc = sc_addr(addr);
    let ups: Vec<&Ev> = events.iter().filter(|e| e.contract == sc && e.kind() == "upgraded").collect();
    if ups.len() != 1 {
        rep.violation(&format!("upgraded-event-count:{}", what), format!("{} upgraded events after a completed migration", ups.len()));
        return false;
    }
    rep.event("upgraded");
    let want = sv_vec(vec![sv_str(version)]);
    if ups[0].data != want {
        rep.violation(&format!("upgraded-event-version:{}", what), format!("upgraded event data {:?}, version() says {:?}", ups[0].data, lossy(version)));
        return false;
    }
    true
}

fn workload_a(ctx: &Ctx, rep: &mut Report, uni: u64, len: u32) {
    let mut rng = ctx.rng_for(uni);
    let seqs = 9u64.pow(len);
    let kind = KINDS[((uni / (2 * seqs)) % 6) as usize];
    let with_history = (uni / seqs) % 2 == 1;
    let mut code = uni % seqs;
    let mut u = U::new();
    let first_owner = u.principal();
    let stranger = u.principal();
    let addr = deploy(&mut u, kind, &first_owner, &mut rng);
    let mut owner = first_owner.clone();
    let mut former = stranger.clone();
    if with_history {
        let new_owner = u.principal();
        let (a, n) = (addr.clone(), new_owner.clone());
        let o = u.call(Auth::Only(vec![owner.clone()]), &move |env: &Env| flat(OwnableClient::new(env, &a).try_transfer_ownership(&n)));
        if !o.ok() {
            rep.foreign("ownership-transfer-refused");
            return;
        }
        former = owner.clone();
        owner = new_owner;
    }
    rep.step(format!("A: kind={} former_owner_exists={} code={}", kind, with_history, code));
    let version0 = version_of(&mut u, &addr);
    let exec0 = executable_of(&u, &addr);
    let hash = native_hash(&u.env);
    let mut window = false;
    for step in 0..len {
        let sym = code % 9;
        code /= 9;
        // time may pass between any two steps: the window neither closes nor reopens by itself
        if rng.chance(1, 6) {
            let d = rng.ledger_jump();
            if u.advance(d) {
                rep.step(format!("ledger advances to {}", u.seq()));
                rep.count("advance-ledger");
            }
        }
        if sym == 8 {
            // the role changes hands in the middle of the history (also while a window is open)
            let new_owner = u.principal();
            let (a, n) = (addr.clone(), new_owner.clone());
            let o = u.call(Auth::Only(vec![owner.clone()]), &move |env: &Env| flat(OwnableClient::new(env, &a).try_transfer_ownership(&n)));
            rep.step(format!("step {} transfer_ownership by the owner (window open: {}) -> {:?}", step, window, o.res));
            rep.count("op:transfer-ownership-mid-history");
            rep.eval("transfer_ownership", &format!("{}|transfer|{}|{}", kind, window, o.ok()), true);
            if !o.ok() {
                rep.foreign("ownership-transfer-refused");
                return;
            }
            former = owner.clone();
            owner = new_owner;
            continue;
        }
        let is_upgrade = sym % 2 == 0;
        let who = PRINCIPALS[((sym / 2) % 4) as usize];
        let auth = match who {
            "owner" => Auth::Only(vec![owner.clone()]),
            "former-owner" => Auth::AllBy(former.clone()),
            "stranger" => Auth::AllBy(stranger.clone()),
            _ => Auth::Nobody,
        };
        let by_owner = who == "owner";
        let (want, o) = if is_upgrade {
            (by_owner, do_upgrade(&mut u, &addr, &hash, auth))
        } else {
            (by_owner && window, do_migrate(&mut u, &addr, kind, auth))
        };
        let opn = if is_upgrade { "upgrade" } else { "migrate" };
        rep.step(format!("step {} {} by {} window={} want={} got={:?}", step, opn, who, window, want, o.res));
        rep.count(&format!("kind:{}", kind));
        rep.count(&format!("op:{}:{}", opn, who));
        rep.eval(opn, &format!("{}|{}|{}|{}|{}|{}", kind, opn, who, window, with_history, o.ok()), true);
        if let Some(l) = &o.leak {
            rep.violation(&format!("refused-{}-left-trace:{}", opn, kind), l.clone());
            return;
        }
        if o.ok() != want {
            let sig = if o.ok() {
                if !by_owner { format!("{}-accepted-from:{}", opn, who) } else { "migrate-accepted-outside-window".to_string() }
            } else {
                format!("{}-refused-for-owner", opn)
            };
            rep.violation(&format!("{}:{}", sig, kind), format!("{} on {} by {} (window open: {}) -> ok={}, model {}", opn, kind, who, window, o.ok(), want));
            return;
        }
        if o.ok() {
            if is_upgrade {
                window = true;
            } else {
                window = false;
                let v = version_of(&mut u, &addr);
                if !check_upgraded_event(rep, &o.events, &addr, &v, kind) {
                    return;
                }
            }
        }
    }
    // decisive end-of-history probe: the owner's migration succeeds iff the window is open
    let o = {
        let owner = owner.clone();
        let addr2 = addr.clone();
        u.probe(|u| do_migrate(u, &addr2, kind, Auth::Only(vec![owner])))
    };
    rep.eval("final-migrate-probe", &format!("{}|final|{}|{}", kind, window, o.ok()), true);
    if o.ok() != window {
        rep.violation(
            &format!("window-state:{}:{}", if o.ok() { "open-unexpectedly" } else { "closed-unexpectedly" }, kind),
            format!("after the history the owner's migrate -> ok={}, model window open={}", o.ok(), window),
        );
        return;
    }
    if kind != "versioned-target" && version_of(&mut u, &addr) != version0 {
        rep.violation("version-changed-by-native-self-upgrade", kind.to_string());
    }
    if executable_of(&u, &addr) != exec0 {
        rep.violation("executable-changed-by-native-self-upgrade", kind.to_string());
    }
    if owner_of(&mut u, &addr) != owner {
        rep.violation("owner-changed-by-upgrade", kind.to_string());
    }
}

fn workload_b(ctx: &Ctx, rep: &mut Report, uni: u64) {
    let mut rng = ctx.rng_for(uni);
    let kind = KINDS[(uni % 6) as usize];
    let mut u = U::new();
    let owner = u.principal();
    let stranger = u.principal();
    let addr = deploy(&mut u, kind, &owner, &mut rng);
    let use_dummy = rng.chance(1, 2);
    let wasm = if use_dummy { DUMMY_WASM } else { TRIVIAL_WASM };
    let hash = u.env.deployer().upload_contract_wasm(Bytes::from_slice(&u.env, wasm));
    u.skip_events();
    rep.step(format!("B: real swap of {} to {}", kind, if use_dummy { "dummy.wasm" } else { "contract_trivial_migration.wasm" }));
    let exec0 = executable_of(&u, &addr);
    // refused for others
    for (who, auth) in [("stranger", Auth::AllBy(stranger.clone())), ("nobody", Auth::Nobody)] {
        let o = do_upgrade(&mut u, &addr, &hash, auth);
        rep.eval("swap-refused", &format!("{}|swap|{}|{}", kind, who, o.ok()), true);
        if o.ok() || o.leak.is_some() {
            rep.violation(&format!("upgrade-accepted-from:{}:{}", who, kind), format!("real code swap accepted from {} (leak {:?})", who, o.leak));
            return;
        }
    }
    let o = do_upgrade(&mut u, &addr, &hash, Auth::Only(vec![owner.clone()]));
    rep.eval("swap", &format!("{}|swap|owner|{}", kind, o.ok()), true);
    rep.count("real-swap");
    if !o.ok() {
        rep.violation(&format!("upgrade-refused-for-owner:{}", kind), format!("{:?}", o.res));
        return;
    }
    let exec1 = executable_of(&u, &addr);
    if exec1 == exec0 {
        rep.violation("real-swap-did-not-change-executable", kind.to_string());
        return;
    }
    // the new code answers, and the owner record persisted
    let v = version_of(&mut u, &addr);
    let want_v: &[u8] = if use_dummy { b"0.2.0" } else { b"0.1.0" };
    if v != want_v {
        rep.inconclusive(format!("pinned wasm reports version {:?}", lossy(&v)));
    }
    if owner_of(&mut u, &addr) != owner {
        rep.violation("owner-lost-in-upgrade", kind.to_string());
    }
}

fn workload_c(ctx: &Ctx, rep: &mut Report, uni: u64) {
    let mut rng = ctx.rng_for(uni);
    let mut u = U::new();
    let owner = u.principal();
    let stranger = u.principal();
    let upgrader = u.env.register(Upgrader, ());
    // production contracts can only be driven into the failure branches (their version is a constant)
    // a third of the runs really swap the code: a native target is upgraded to the committed
    // dummy.wasm (reports version 0.2.0, has migrate(String) for its owner)
    if uni % 3 == 1 {
        workload_c_real_swap(ctx, rep, &mut rng, u, owner, stranger, upgrader);
        return;
    }
    let kind = if uni % 3 == 0 { KINDS[(rng.usize(5))] } else { "versioned-target" };
    let addr = deploy(&mut u, kind, &owner, &mut rng);
    // when the probe target's version changes: 0 with the code, 1 in the migration, 2 at both points
    let mode: u32 = if kind == "versioned-target" { *rng.pick(&[0, 0, 1, 2]) } else { 0 };
    if mode != 0 {
        let a = addr.clone();
        u.setup(move |env| VersionedTargetClient::new(env, &a).set_mode(&mode));
    }
    let hash = native_hash(&u.env);
    // one time in four the probe target sits between a direct upgrade and its migration when the
    // Upgrader is called: a request that names the version it reports now must still be refused,
    // and no request may use the open window to finish somebody else's upgrade half-way
    let pre_open = kind == "versioned-target" && rng.chance(1, 4) && u.upgrade_only(&addr).is_ok();
    if pre_open {
        rep.count("upgrader:target-window-already-open");
    }
    let cur = version_of(&mut u, &addr);
    let vclass = if pre_open {
        *rng.pick(&["same", "same", "wrong"])
    } else if mode == 2 { *rng.pick(&["same", "correct", "wrong", "correct-spelled-differently", "the-version-between-the-steps", "the-version-between-the-steps"]) } else { *rng.pick(&["same", "correct", "wrong", "correct-spelled-differently"]) };
    let aclass = *rng.pick(&["both", "both", "upgrade-only", "migrate-only", "none", "stranger-both"]);
    let dclass = *rng.pick(&["well-typed", "well-typed", "ill-typed", "wrong-arity", "empty"]);
    let migrate_sets: Vec<u8> = if mode == 2 { b"3.1.5".to_vec() } else { b"3.1.4".to_vec() };
    let requested: Vec<u8> = match vclass {
        "same" => cur.clone(),
        "correct" => if kind == "versioned-target" { migrate_sets.clone() } else { b"9.9.9".to_vec() },
        // the version the target will report, in a spelling that is not the same string
        "correct-spelled-differently" => {
            let base = if kind == "versioned-target" { migrate_sets.clone() } else { cur.clone() };
            match rng.below(4) {
                0 => [b"v".to_vec(), base].concat(),
                1 => [b"V".to_vec(), base].concat(),
                2 => [base, b" ".to_vec()].concat(),
                _ => [base, b".0".to_vec()].concat(),
            }
        }
        "the-version-between-the-steps" => b"3.1.4".to_vec(),
        _ => b"7.7.7".to_vec(),
    };
    let (up, ad, rq, ms) = (upgrader.clone(), addr.clone(), requested.clone(), migrate_sets.clone());
    let f = move |env: &Env| -> Result<(), String> {
        let mut data: SVec<Val> = SVec::new(env);
        match dclass {
            "well-typed" => {
                if kind == "versioned-target" {
                    data.push_back(sstr(env, &ms).to_val());
                } else {
                    data.push_back(Val::VOID.to_val());
                }
            }
            "ill-typed" => data.push_back(7u32.into_val(env)),
            "wrong-arity" => {
                data.push_back(sstr(env, &ms).to_val());
                data.push_back(Val::VOID.to_val());
            }
            _ => {}
        }
        flat_any(UpgraderClient::new(env, &up).try_upgrade(&ad, &sstr(env, &rq), &native_hash(env), &data))
    };
    // which of the owner's trees are provided
    let (_, forest) = u.record(&f);
    let owner_sc = sc_addr(&owner);
    let owner_trees: Vec<usize> = forest.iter().enumerate().filter(|(_, (a, _))| *a == owner_sc).map(|(i, _)| i).collect();
    let auth = match aclass {
        "both" => Auth::Only(vec![owner.clone()]),
        "upgrade-only" => Auth::Pick(owner_trees.iter().take(1).cloned().collect()),
        "migrate-only" => Auth::Pick(owner_trees.iter().skip(1).cloned().collect()),
        "none" => Auth::Nobody,
        _ => Auth::AllBy(stranger.clone()),
    };
    // A valid request for a target whose version changes with its code must complete. Where the
    // version (also) changes in the migration, the statement allows either outcome: completing at the
    // requested version, or refusing and leaving everything as it was.
    let valid = kind == "versioned-target" && vclass == "correct" && aclass == "both" && dclass == "well-typed";
    let completes: Option<bool> = if valid && mode != 0 { None } else { Some(valid) };
    // a correct request on a production contract cannot complete (its version never changes);
    // everything must then be rolled back
    rep.step(format!("C: target={} (version changes: {}) version={} auth={} data={} (owner trees recorded: {}) want_complete={:?}", kind, ["with the code", "in the migration", "at both steps"][mode as usize], vclass, aclass, dclass, owner_trees.len(), completes));
    rep.count(&format!("upgrader:target-version-changes:{}", ["with-the-code", "in-the-migration", "at-both-steps"][mode as usize]));
    let exec0 = executable_of(&u, &addr);
    let o = u.call(auth, &f);
    rep.count(&format!("upgrader:version:{}", vclass));
    rep.count(&format!("upgrader:auth:{}", aclass));
    rep.count(&format!("upgrader:data:{}", dclass));
    rep.eval("upgrader", &format!("{}|{}|{}|{}|{}", if kind == "versioned-target" { kind } else { "production" }, vclass, aclass, dclass, o.ok()), true);
    if rep.samples.len() < 4 && rng.chance(1, 30) {
        rep.sample(json!({"target": kind, "requested_version": vclass, "authorisation": aclass, "migration_data": dclass, "completed": o.ok()}));
    }
    if let Some(l) = &o.leak {
        rep.violation(&format!("failed-upgrader-call-left-trace:{}:{}:{}", vclass, aclass, dclass), l.clone());
        return;
    }
    if completes.is_some() && Some(o.ok()) != completes {
        let sig = if o.ok() {
            format!("upgrader-completed:{}:{}:{}", vclass, aclass, dclass)
        } else {
            "upgrader-refused-valid-request".to_string()
        };
        rep.violation(&sig, format!("Upgrader.upgrade(target={}, version {}, auth {}, data {}) -> ok={}, model {:?}: {:?}", kind, vclass, aclass, dclass, o.ok(), completes, o.res));
        return;
    }
    let v = version_of(&mut u, &addr);
    if o.ok() {
        if v != requested || v == cur {
            rep.violation("upgrader-ended-at-wrong-version", format!("version() = {:?}, requested {:?}, before {:?}", lossy(&v), lossy(&requested), lossy(&cur)));
            return;
        }
        if !check_upgraded_event(rep, &o.events, &addr, &v, "upgrader") {
            return;
        }
        // the window is closed again
        let (owner2, addr2) = (owner.clone(), addr.clone());
        let again = u.probe(|u| do_migrate(u, &addr2, "versioned-target", Auth::Only(vec![owner2])));
        if again.ok() {
            rep.violation("migration-runs-twice-after-upgrader", "migrate succeeded again after a completed Upgrader run".into());
        }
    } else {
        if v != cur || executable_of(&u, &addr) != exec0 {
            rep.violation("failed-upgrader-call-changed-target", "version or executable differ after a failed Upgrader call".into());
            return;
        }
        let (owner2, addr2) = (owner.clone(), addr.clone());
        let k2: &'static str = if kind == "versioned-target" { "versioned-target" } else { "gateway" };
        let again = u.probe(|u| do_migrate(u, &addr2, k2, Auth::Only(vec![owner2])));
        // (a window that was open before the call is still open: the call left everything as it was)
        if again.ok() != pre_open {
            rep.violation(if pre_open { "failed-upgrader-call-closed-an-open-window" } else { "failed-upgrader-call-left-window-open" }, format!("after a failed Upgrader call the owner's migrate -> ok={} (window open before the call: {})", again.ok(), pre_open));
        }
    }
}

/// Does the target's instance storage hold dummy.wasm's migration datum?
fn dummy_migrated(u: &U, addr: &Address) -> bool {
    let sc = sc_addr(addr);
    for (k, e, _) in u.snap() {
        if let soroban_sdk::xdr::LedgerKey::ContractData(cd) = k.as_ref() {
            if cd.contract == sc && matches!(cd.key, ScVal::LedgerKeyContractInstance) {
                if let soroban_sdk::xdr::LedgerEntryData::ContractData(d) = &e.data {
                    if let ScVal::ContractInstance(inst) = &d.val {
                        if let Some(m) = &inst.storage {
                            return m.iter().any(|en| en.key == sv_vec(vec![sv_sym("Data")]));
                        }
                    }
                }
            }
        }
    }
    false
}

fn workload_c_real_swap(ctx: &Ctx, rep: &mut Report, rng: &mut Rng, mut u: U, owner: Address, stranger: Address, upgrader: Address) {
    let addr = u.env.register(VersionedTarget, (&owner,));
    let hash = u.env.deployer().upload_contract_wasm(Bytes::from_slice(&u.env, DUMMY_WASM));
    // one time in four the target already reports the version of the code it is asked to move to:
    // the request then names the current version and must be refused, whatever the new code says
    if rng.chance(1, 4) {
        let a = addr.clone();
        u.setup(move |env| VersionedTargetClient::new(env, &a).set_base(&sstr(env, b"0.2.0")));
        rep.count("upgrader:target-already-at-the-new-code's-version");
    }
    u.skip_events();
    let cur = version_of(&mut u, &addr);
    let vclass = *rng.pick(&["same", "correct", "correct", "wrong", "correct-spelled-differently"]);
    let aclass = *rng.pick(&["both", "both", "upgrade-only", "migrate-only", "none", "stranger-both"]);
    let dclass = *rng.pick(&["well-typed", "well-typed", "ill-typed", "wrong-arity", "empty"]);
    let requested: Vec<u8> = match vclass {
        "same" => cur.clone(),
        "correct" => b"0.2.0".to_vec(),
        "correct-spelled-differently" => rng.pick(&[b"v0.2.0".to_vec(), b"V0.2.0".to_vec(), b"0.2.0 ".to_vec(), b"0.2.0.0".to_vec(), b"00.2.0".to_vec()]).clone(),
        _ => b"7.7.7".to_vec(),
    };
    let (up, ad, rq, h2) = (upgrader.clone(), addr.clone(), requested.clone(), hash.clone());
    let f = move |env: &Env| -> Result<(), String> {
        let mut data: SVec<Val> = SVec::new(env);
        match dclass {
            "well-typed" => data.push_back(sstr(env, b"migrated").to_val()),
            "ill-typed" => data.push_back(7u32.into_val(env)),
            "wrong-arity" => {
                data.push_back(sstr(env, b"migrated").to_val());
                data.push_back(Val::VOID.to_val());
            }
            _ => {}
        }
        flat_any(UpgraderClient::new(env, &up).try_upgrade(&ad, &sstr(env, &rq), &h2, &data))
    };
    // which of the owner's trees are provided (recorded with well-typed data so that both steps are reached)
    let (up2, ad2, rq2, h3) = (upgrader.clone(), addr.clone(), b"0.2.0".to_vec(), hash.clone());
    let (_, forest) = u.record(&move |env: &Env| {
        let mut data: SVec<Val> = SVec::new(env);
        data.push_back(sstr(env, b"migrated").to_val());
        flat_any(UpgraderClient::new(env, &up2).try_upgrade(&ad2, &sstr(env, &rq2), &h3, &data))
    });
    let owner_sc = sc_addr(&owner);
    let owner_trees: Vec<(soroban_sdk::xdr::ScAddress, soroban_sdk::xdr::SorobanAuthorizedInvocation)> = forest.into_iter().filter(|(a, _)| *a == owner_sc).collect();
    let auth = match aclass {
        "both" => Auth::Forest(owner_trees.clone()),
        "upgrade-only" => Auth::Forest(owner_trees.iter().take(1).cloned().collect()),
        "migrate-only" => Auth::Forest(owner_trees.iter().skip(1).cloned().collect()),
        "none" => Auth::Nobody,
        _ => Auth::Forest(owner_trees.iter().map(|(_, i)| (sc_addr(&stranger), i.clone())).collect()),
    };
    let completes = vclass == "correct" && aclass == "both" && dclass == "well-typed" && requested != cur;
    rep.step(format!("C(real swap to dummy.wasm): version={} auth={} data={} (owner trees recorded: {}) want_complete={}", vclass, aclass, dclass, owner_trees.len(), completes));
    let exec0 = executable_of(&u, &addr);
    let o = u.call(auth, &f);
    rep.count("upgrader:target:real-swap");
    rep.count(&format!("upgrader:version:{}", vclass));
    rep.count(&format!("upgrader:auth:{}", aclass));
    rep.count(&format!("upgrader:data:{}", dclass));
    rep.eval("upgrader", &format!("real-swap|{}|{}|{}|{}", vclass, aclass, dclass, o.ok()), true);
    if let Some(l) = &o.leak {
        rep.violation(&format!("failed-upgrader-call-left-trace:{}:{}:{}", vclass, aclass, dclass), l.clone());
        return;
    }
    // with well-typed data recorded for the honest call, a differing data vector makes the
    // migrate tree mismatch: that is a refusal for lack of authorisation, which is fine
    if o.ok() != completes {
        let sig = if o.ok() { format!("upgrader-completed:{}:{}:{}", vclass, aclass, dclass) } else { "upgrader-refused-valid-request".to_string() };
        rep.violation(&sig, format!("Upgrader.upgrade(real swap, version {}, auth {}, data {}) -> ok={}, model {}: {:?}", vclass, aclass, dclass, o.ok(), completes, o.res));
        return;
    }
    if o.ok() {
        let v = version_of(&mut u, &addr);
        if v != requested || v == cur {
            rep.violation("upgrader-ended-at-wrong-version", format!("version() = {:?}, requested {:?}", lossy(&v), lossy(&requested)));
            return;
        }
        if executable_of(&u, &addr) == exec0 {
            rep.violation("upgrader-completed-without-code-swap", "executable unchanged".into());
            return;
        }
        if !dummy_migrated(&u, &addr) {
            rep.violation("upgrader-completed-without-migration", "the Upgrader reported success but the new code's migration never ran".into());
        }
    } else if executable_of(&u, &addr) != exec0 || version_of(&mut u, &addr) != cur {
        rep.violation("failed-upgrader-call-changed-target", "version or executable differ after a failed Upgrader call".into());
    }
}

pub fn run(ctx: &Ctx, rep: &mut Report) {
    let len: u32 = if ctx.thorough() { 5 } else { 3 };
    let n_a = 6 * 2 * 9u64.pow(len);
    let n_b = if ctx.thorough() { 240 } else { 36 };
    let n_c = ctx.universes(6000, 200000);
    let total = n_a + n_b + n_c;
    for uni in ctx.my_universes(total) {
        rep.begin_universe(uni);
        if uni < n_a {
            workload_a(ctx, rep, uni, len);
        } else if uni < n_a + n_b {
            workload_b(ctx, rep, uni - n_a);
        } else {
            workload_c(ctx, rep, uni - n_a - n_b);
        }
    }
    rep.exhaustive = Some(true);
    let mut req: Vec<String> = KINDS.iter().map(|k| format!("kind:{}", k)).collect();
    for o in ["upgrade", "migrate"] {
        for p in PRINCIPALS {
            req.push(format!("op:{}:{}", o, p));
        }
    }
    for v in ["same", "correct", "wrong"] {
        req.push(format!("upgrader:version:{}", v));
    }
    for v in ["both", "upgrade-only", "migrate-only", "none", "stranger-both"] {
        req.push(format!("upgrader:auth:{}", v));
    }
    for v in ["well-typed", "ill-typed", "wrong-arity", "empty"] {
        req.push(format!("upgrader:data:{}", v));
    }
    req.push("real-swap".into());
    req.push("op:transfer-ownership-mid-history".into());
    req.push("upgrader:target:real-swap".into());
    rep.notes.insert("required".into(), json!(req));
    rep.notes.insert("bounds".into(), json!({"workload_A_sequence_length": len, "workload_A_sequences": n_a, "workload_B_swaps": n_b, "workload_C_upgrader_calls": n_c, "exhaustive_part": "workload A (all sequences of the stated length over {upgrade, migrate} x {owner, former owner, stranger, nobody} plus ownership transfer by the owner, for 6 contracts, with and without a previous ownership transfer); B and C are sampled"}));
    rep.notes.insert("rule".into(), json!("A: every sequence of the stated length over the 9 symbols {upgrade, migrate} x {owner, former owner, stranger, nobody} and the-owner-transfers-ownership (so the role can change hands while a window is open) on gateway, gas service, operators, ITS, interchain token and a versioned test target, run natively (upgrade to the native marker hash), window model checked at every step plus an end-of-history probe, with ledger advancement (up to the expiry of every temporary entry) before one step in six; B: real code swap to committed Wasm binaries (refused for stranger/nobody, executable hash changes, owner persists); C: Upgrader.upgrade with requested version {same, correct, wrong, the correct one spelled differently (v-prefix, trailing blank, extra component)} x authorisation coverage {both steps, upgrade only, migrate only, none, stranger} x migration data {well-typed, ill-typed, wrong arity, empty}: completes and ends at the requested different version, or the whole ledger is unchanged. distinct = (contract, op, principal, window, history, outcome) / (target, version class, auth class, data class, outcome)"));
}
