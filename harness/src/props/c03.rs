//! C03 — rotation installs only well-formed, authorised sets.
//! Gateway reference model; full lookup sweep (all epochs, all hashes ever seen, including those
//! of rejected candidates) after every operation; failed operations diffed against the pre-state;
//! constructor attempts through a factory so that failures are ordinary call errors.

use crate::gw::*;
use crate::oracle::*;
use crate::probes::factory::{Factory, FactoryClient};
use crate::report::Report;
use crate::rng::Rng;
use crate::univ::*;
use crate::Ctx;
use axelar_gateway::AxelarGateway;
use serde_json::json;
use soroban_sdk::{Address, BytesN, Env, IntoVal, Val, Vec as SVec};

const CAND: &[&str] = &[
    "fresh",
    "fresh-total-max",
    "earlier-other-nonce",
    "empty",
    "adjacent-equal-keys",
    "descending-pair",
    "zero-weight",
    "overflow-total",
    "threshold-zero",
    "threshold-total-plus-1",
    "earlier-verbatim",
    "zero-first-key",
];

const PROOF: &[&str] = &[
    "newest",
    "older-retained-no-bypass",
    "older-retained-bypass-operator",
    "bypass-without-operator",
    "older-retained-bypass-without-operator",
    "prevalidated-when-newest-now-older",
    "unknown-set",
    "proof-for-other-candidate",
    "expired-set-bypass",
    "newest-one-short",
];

/// An index below `n`: in large sets preferably right at a multiple of 16 (where an
/// implementation working in batches would start a new batch).
fn boundary_index(rng: &mut Rng, n: usize) -> usize {
    let edges: Vec<usize> = [15usize, 16, 31, 32].iter().cloned().filter(|i| *i < n).collect();
    if !edges.is_empty() && rng.chance(2, 3) {
        *rng.pick(&edges)
    } else {
        rng.usize(n)
    }
}

fn gen_candidate(rng: &mut Rng, ring: &mut KeyRing, m: &GwModel, class: &str) -> Option<MSigners> {
    // one candidate in six is a large set (17..40 signers)
    let max_n = if rng.chance(1, 6) { 40 } else { 5 };
    let mut s = gen_wellformed_set(rng, ring, max_n);
    match class {
        "fresh" => {}
        "fresh-total-max" => {
            let n = s.signers.len();
            for (i, x) in s.signers.iter_mut().enumerate() {
                x.weight = if i == 0 { u128::MAX - (n as u128 - 1) } else { 1 };
            }
            s.threshold = if rng.chance(1, 2) { u128::MAX } else { 1 };
        }
        "earlier-other-nonce" => {
            s = rng.pick(&m.sets).clone();
            s.nonce = rng.bytes32();
        }
        "empty" => {
            s.signers.clear();
        }
        "adjacent-equal-keys" => {
            let k = boundary_index(rng, s.signers.len());
            let mut d = s.signers[k].clone();
            // the repeated entry carries the same, a higher or a lower weight
            match rng.below(3) {
                0 => {}
                1 => d.weight = d.weight.saturating_add(1 + rng.below(5) as u128),
                _ => d.weight = (d.weight / 2).max(1),
            }
            s.signers.insert(k + 1, d);
            // keep the threshold reachable so that only the key order is wrong
        }
        "descending-pair" => {
            if s.signers.len() < 2 {
                let pk = ring.gen(rng);
                s.signers.push(MSigner { key: pk, weight: 1 });
                s.signers.sort_by(|a, b| a.key.cmp(&b.key));
            }
            let k = boundary_index(rng, s.signers.len() - 1);
            s.signers.swap(k, k + 1);
        }
        "zero-weight" => {
            let k = boundary_index(rng, s.signers.len());
            // keep threshold <= remaining total where possible
            s.signers[k].weight = 0;
            let tot: u128 = s.signers.iter().map(|x| x.weight).fold(0u128, |a, b| a.saturating_add(b));
            s.threshold = if tot == 0 { 1 } else { 1 + rng.next_u128() % tot };
        }
        "overflow-total" => {
            if s.signers.len() < 2 {
                let pk = ring.gen(rng);
                s.signers.push(MSigner { key: pk, weight: 1 });
                s.signers.sort_by(|a, b| a.key.cmp(&b.key));
            }
            while s.signers.len() < 3 && rng.chance(2, 3) {
                let pk = ring.gen(rng);
                s.signers.push(MSigner { key: pk, weight: 1 });
                s.signers.sort_by(|a, b| a.key.cmp(&b.key));
            }
            let n = s.signers.len();
            // sum = u128::MAX + 1 exactly, far beyond, or wrapping at a signer in the middle so
            // that the additions after the wrap are small again
            if n >= 3 && rng.chance(1, 2) {
                let p = 1 + rng.usize(n - 2); // the addition that wraps: 1 ..= n-2
                for (i, x) in s.signers.iter_mut().enumerate() {
                    x.weight = if i == 0 {
                        u128::MAX - (p as u128 - 1)
                    } else if i <= p {
                        1
                    } else {
                        1 + rng.below(5) as u128
                    };
                }
            } else if rng.chance(1, 2) {
                for (i, x) in s.signers.iter_mut().enumerate() {
                    x.weight = if i == 0 { u128::MAX - (n as u128 - 2) } else { 1 };
                }
            } else {
                for x in s.signers.iter_mut() {
                    x.weight = u128::MAX;
                }
            }
            s.threshold = 1;
        }
        "threshold-zero" => s.threshold = 0,
        "threshold-total-plus-1" => {
            let t = s.total_weight()?;
            if t == u128::MAX {
                return None;
            }
            // just beyond the total, or far beyond it (where a signed or narrowed comparison wraps)
            s.threshold = match rng.below(4) {
                0 => u128::MAX,
                1 => (1u128 << 127).max(t + 1),
                2 => (1u128 << 127).saturating_add(t).max(t + 1),
                _ => t + 1,
            };
        }
        "earlier-verbatim" => {
            s = rng.pick(&m.sets).clone();
        }
        "zero-first-key" => {
            s.signers[0].key = [0u8; 32];
        }
        _ => return None,
    }
    Some(s)
}

fn own(reason: &str, prop: &str) -> bool {
    match reason {
        "operator-auth" => prop == "C06" || prop == "C09" || prop == "C03",
        "delay" => prop == "C09",
        "retention" => prop == "C08" || prop == "C01",
        "not-latest" => prop == "C03" || prop == "C08",
        "unknown-set" | "weight" => prop == "C01" || prop == "C03",
        _ => prop == "C03",
    }
}

/// One rotation attempt, compared with the model. Returns false when the universe must be
/// abandoned (model and contract diverged).
pub fn rotation_step(
    ctx: &Ctx,
    rep: &mut Report,
    u: &mut U,
    g: &mut Gw,
    cand: &MSigners,
    plan: &ProofPlan,
    bypass: bool,
    auth: Auth,
    operator_authorised: bool,
    class: &str,
    class_sig: &str,
    refusal_owners: &[&str],
) -> bool {
    let now = u.time();
    let expect = g.model.expect_rotate(cand, plan, bypass, operator_authorised, now);
    g.model.note_hash(cand.hash());
    g.model.note_hash(plan.declared.hash());
    rep.step(format!(
        "rotate {} bypass={} op_auth={} now={} last={} epoch={} expect={:?}",
        class_sig,
        bypass,
        operator_authorised,
        now,
        g.model.last_rotation,
        g.model.epoch(),
        expect
    ));
    let o = g.do_rotate(u, cand, plan, bypass, auth);
    rep.eval(class, &format!("{}|{:?}|{}|epoch={}", class_sig, expect, o.ok(), g.model.epoch().min(6)), true);
    if let Some(l) = &o.leak {
        if ctx.prop == "C03" {
            rep.violation(&format!("failed-rotation-left-trace:{}", class_sig), l.clone());
        } else {
            rep.foreign("failed-rotation-left-trace");
        }
        return false;
    }
    match (&expect, o.ok()) {
        (Must::Fail(r), true) => {
            if own(r, &ctx.prop) {
                rep.violation(
                    &format!("rotation-accepted:{}:{}", class_sig, r),
                    format!("rotation {} accepted; must fail: {}", class_sig, r),
                );
            } else {
                rep.foreign(&format!("rotation-accepted:{}", r));
            }
            return false;
        }
        (Must::Succeed, false) => {
            if refusal_owners.contains(&ctx.prop.as_str()) {
                rep.violation(
                    &format!("rotation-refused:{}", class_sig),
                    format!("authorised rotation to a well-formed new set refused ({}): {:?}", class_sig, o.res),
                );
            } else {
                rep.foreign("rotation-refused");
            }
            return false;
        }
        _ => {}
    }
    if o.ok() {
        g.model.apply_rotate(cand, now);
        let want = vec![g.ev_rotated(g.model.epoch(), &cand.hash())];
        let got: Vec<Ev> = o.events.iter().filter(|e| e.contract == g.sc && e.kind() == "signers_rotated").cloned().collect();
        for e in &got {
            rep.event(&e.kind());
        }
        if got != want {
            // the statement speaks of epoch and lookups, not of the event: recorded, not judged
            rep.count("note:signers_rotated-event-differs");
        }
    }
    if let Some(d) = g.check_lookups(u) {
        if ctx.prop == "C03" {
            rep.violation(&format!("lookups-inconsistent-after:{}", if o.ok() { "success" } else { "failure" }), d);
        } else {
            rep.foreign("lookups-inconsistent");
        }
        return false;
    }
    true
}

fn constructor_attempts(ctx: &Ctx, rep: &mut Report, rng: &mut Rng) {
    let mut u = U::new();
    let mut ring = KeyRing::default();
    let owner = u.principal();
    let operator = u.principal();
    let factory = u.env.register(Factory, ());
    u.skip_events();
    let valid = gen_wellformed_set(rng, &mut ring, 3);
    for attempt in 0..6 {
        let salt = rng.bytes32();
        let class = *rng.pick(&["none", "one", "three", "duplicate-inside", "malformed-inside", "same-set-other-nonce"]);
        let mut initial: Vec<MSigners> = Vec::new();
        match class {
            "none" => {}
            "one" => initial.push(gen_wellformed_set(rng, &mut ring, 4)),
            "three" => {
                for _ in 0..3 {
                    initial.push(gen_wellformed_set(rng, &mut ring, 4));
                }
            }
            "duplicate-inside" => {
                let a = gen_wellformed_set(rng, &mut ring, 4);
                initial.push(a.clone());
                if rng.chance(1, 2) {
                    initial.push(gen_wellformed_set(rng, &mut ring, 4));
                }
                initial.push(a);
            }
            "malformed-inside" => {
                initial.push(gen_wellformed_set(rng, &mut ring, 4));
                let dummy = GwModel {
                    domain: [0; 32],
                    retention: 0,
                    delay: 0,
                    sets: initial.clone(),
                    last_rotation: 0,
                    msgs: Default::default(),
                    owner: sc_addr(&owner),
                    operator: sc_addr(&operator),
                    seen_hashes: vec![],
                };
                let bad_class = *rng.pick(&["empty", "adjacent-equal-keys", "descending-pair", "zero-weight", "overflow-total", "threshold-zero", "threshold-total-plus-1"]);
                match gen_candidate(rng, &mut ring, &dummy, bad_class) {
                    Some(b) => {
                        if rng.chance(1, 2) {
                            initial.insert(0, b)
                        } else {
                            initial.push(b)
                        }
                    }
                    None => continue,
                }
            }
            _ => {
                let a = gen_wellformed_set(rng, &mut ring, 4);
                let mut b = a.clone();
                b.nonce = rng.bytes32();
                initial.push(a);
                initial.push(b);
            }
        }
        let mut expect_ok = !initial.is_empty();
        for (i, s) in initial.iter().enumerate() {
            if well_formed(s).is_err() || initial[..i].contains(s) {
                expect_ok = false;
            }
        }
        let domain = rng.bytes32();
        let retention = rng.below(3);
        let predicted = u
            .env
            .deployer()
            .with_address(factory.clone(), BytesN::from_array(&u.env, &salt))
            .deployed_address();
        let vargs = gateway_ctor_args(&u.env, &owner, &operator, &domain, 0, retention, &[valid.clone()]);
        if !u.prime(&predicted, AxelarGateway, vargs) {
            rep.violation("construction-refused:well-formed-set", "the constructor refused a single well-formed initial signer set".into());
            continue;
        }
        let args = gateway_ctor_args(&u.env, &owner, &operator, &domain, 0, retention, &initial);
        let f = factory.clone();
        rep.step(format!("construct attempt={} class={} sets={} expect_ok={}", attempt, class, initial.len(), expect_ok));
        let o = u.call(Auth::Nobody, &move |env: &Env| {
            let c = FactoryClient::new(env, &f);
            let a: SVec<Val> = args.clone().into_val(env);
            flat(c.try_deploy(&native_hash(env), &BytesN::from_array(env, &salt), &a))
        });
        rep.eval(&format!("construct-{}", class), &format!("construct|{}|{}|{}", class, initial.len(), o.ok()), true);
        if let Some(l) = &o.leak {
            rep.violation(&format!("failed-construction-left-trace:{}", class), l.clone());
            continue;
        }
        if o.ok() != expect_ok {
            rep.violation(
                &format!("construction-{}:{}", if o.ok() { "accepted" } else { "refused" }, class),
                format!("constructor with initial list of class {} ({} sets): got ok={}, want ok={}", class, initial.len(), o.ok(), expect_ok),
            );
            continue;
        }
        if !o.ok() {
            if u.has_instance(&predicted) {
                rep.violation("failed-construction-occupies-address", format!("class {}", class));
            }
            continue;
        }
        let addr = o.res.clone().unwrap();
        if addr != predicted {
            rep.inconclusive("factory deployed at an unexpected address".into());
            continue;
        }
        let mut model = GwModel {
            domain,
            retention,
            delay: 0,
            sets: initial.clone(),
            last_rotation: u.time(),
            msgs: Default::default(),
            owner: sc_addr(&owner),
            operator: sc_addr(&operator),
            seen_hashes: vec![],
        };
        for s in &initial {
            model.note_hash(s.hash());
        }
        let g = Gw { sc: sc_addr(&addr), addr, model };
        let want: Vec<Ev> = initial.iter().enumerate().map(|(i, s)| g.ev_rotated(i as u64 + 1, &s.hash())).collect();
        let got: Vec<Ev> = o.events.iter().filter(|e| e.contract == g.sc && e.kind() == "signers_rotated").cloned().collect();
        if got != want {
            rep.count("note:construction-signers_rotated-events-differ");
        }
        if let Some(d) = g.check_lookups(&mut u) {
            rep.violation("lookups-inconsistent-after:construction", d);
        }
    }
}

pub fn run(ctx: &Ctx, rep: &mut Report) {
    let total = ctx.universes(1200, 60000);
    for uni in ctx.my_universes(total) {
        let mut rng = ctx.rng_for(uni);
        rep.begin_universe(uni);
        if uni == 0 {
            // once per run: the history recorded under the pinned version, continued by the current code
            crate::legacy::run(rep, "C03");
        }
        if uni % 4 == 0 {
            constructor_attempts(ctx, rep, &mut rng);
            continue;
        }
        let mut u = U::new();
        let mut ring = KeyRing::default();
        let owner = u.principal();
        let operator = u.principal();
        let stranger = u.principal();
        let retention = *rng.pick(&[0u64, 1, 3, u64::MAX]);
        let n_init = 1 + rng.usize(3);
        let initial: Vec<MSigners> = (0..n_init).map(|_| gen_wellformed_set(&mut rng, &mut ring, 5)).collect();
        let mut g = Gw::deploy(&mut u, &owner, &operator, rng.bytes32(), 0, retention, &initial);
        if let Some(d) = g.check_lookups(&mut u) {
            rep.violation("lookups-inconsistent-after:deployment", d);
            continue;
        }
        // rotation proofs that were checked through the standalone validate_proof entry point while
        // their signer set was the newest, but never used
        let mut stash: Vec<(MSigners, ProofPlan)> = Vec::new();
        for _ in 0..28 {
            if rng.chance(1, 4) && stash.len() < 4 {
                let cand = gen_wellformed_set(&mut rng, &mut ring, 3);
                let newest = g.model.sets.last().unwrap().clone();
                let plan = plan_honest(&ring, &g.model.domain, &newest, &cand.rotation_data_hash(), &all_slots(&newest));
                let o = g.do_validate_proof(&mut u, &cand.rotation_data_hash(), &plan);
                rep.count("prevalidate");
                if o.ok() {
                    stash.push((cand, plan));
                }
            }
            if rng.chance(1, 10) {
                let ga = g.addr.clone();
                match u.upgrade_and_migrate(&ga) {
                    Ok(()) => {
                        rep.count("upgrade-and-migrate");
                        rep.step("the gateway is upgraded to the same code and migrated".into());
                        if let Some(dd) = g.check_lookups(&mut u) {
                            rep.violation("lookups-changed-by-upgrade-and-migrate", dd);
                            break;
                        }
                    }
                    Err(e) => {
                        rep.step(format!("upgrade and migrate -> {}", e));
                        rep.foreign("upgrade-or-migrate-refused");
                        break;
                    }
                }
            }
            // ledger time moves on arbitrarily; the delay is 0 here (C09 owns the clock)
            u.set_time(u.time() + rng.below(3));
            if rng.chance(1, 8) {
                let d = rng.ledger_jump();
                if u.advance(d) {
                    rep.step(format!("ledger advances by {}", d));
                    rep.count("advance-ledger");
                    if let Some(dd) = g.check_lookups(&mut u) {
                        rep.violation("lookups-changed-by-passing-time", dd);
                        break;
                    }
                }
            }
            let cclass = if rng.chance(1, 3) { "fresh" } else { *rng.pick(CAND) };
            let pclass = if rng.chance(1, 2) { "newest" } else { *rng.pick(PROOF) };
            let cand = match gen_candidate(&mut rng, &mut ring, &g.model, cclass) {
                Some(c) => c,
                None => continue,
            };
            let m = g.model.clone();
            let newest = m.sets.last().unwrap().clone();
            let dh = cand.rotation_data_hash();
            let live_old: Vec<MSigners> = m
                .sets
                .iter()
                .enumerate()
                .filter(|(i, _)| m.epoch() - (*i as u64 + 1) <= m.retention && (*i as u64 + 1) != m.epoch())
                .map(|(_, s)| s.clone())
                .collect();
            let expired: Vec<MSigners> = m
                .sets
                .iter()
                .enumerate()
                .filter(|(i, _)| m.epoch() - (*i as u64 + 1) > m.retention)
                .map(|(_, s)| s.clone())
                .collect();
            let (plan, bypass, auth, op_auth) = match pclass {
                "newest" => (plan_honest(&ring, &m.domain, &newest, &dh, &all_slots(&newest)), false, Auth::Nobody, false),
                "older-retained-no-bypass" => {
                    if live_old.is_empty() {
                        continue;
                    }
                    let s = rng.pick(&live_old).clone();
                    (plan_honest(&ring, &m.domain, &s, &dh, &all_slots(&s)), false, Auth::Nobody, false)
                }
                "older-retained-bypass-operator" => {
                    if live_old.is_empty() {
                        continue;
                    }
                    let s = rng.pick(&live_old).clone();
                    (plan_honest(&ring, &m.domain, &s, &dh, &all_slots(&s)), true, Auth::Only(vec![operator.clone()]), true)
                }
                "older-retained-bypass-without-operator" => {
                    if live_old.is_empty() {
                        continue;
                    }
                    let s = rng.pick(&live_old).clone();
                    let a = match rng.below(3) { 0 => Auth::Nobody, 1 => Auth::AllBy(stranger.clone()), _ => Auth::AllBy(owner.clone()) };
                    (plan_honest(&ring, &m.domain, &s, &dh, &all_slots(&s)), true, a, false)
                }
                "prevalidated-when-newest-now-older" => {
                    // handled below (it brings its own candidate)
                    (plan_honest(&ring, &m.domain, &newest, &dh, &all_slots(&newest)), false, Auth::Nobody, false)
                }
                "bypass-without-operator" => {
                    let a = match rng.below(3) { 0 => Auth::Nobody, 1 => Auth::AllBy(stranger.clone()), _ => Auth::AllBy(owner.clone()) };
                    (plan_honest(&ring, &m.domain, &newest, &dh, &all_slots(&newest)), true, a, false)
                }
                "unknown-set" => {
                    let s = gen_wellformed_set(&mut rng, &mut ring, 3);
                    (plan_honest(&ring, &m.domain, &s, &dh, &all_slots(&s)), false, Auth::Nobody, false)
                }
                "proof-for-other-candidate" => {
                    let other = gen_wellformed_set(&mut rng, &mut ring, 3);
                    let mut p = plan_honest(&ring, &m.domain, &newest, &other.rotation_data_hash(), &all_slots(&newest));
                    for s in p.slots.iter_mut() {
                        if let SlotSig::Valid(x) = s {
                            *s = SlotSig::Invalid(*x);
                        }
                    }
                    p.desc = "signed-for-other-candidate".into();
                    (p, false, Auth::Nobody, false)
                }
                "expired-set-bypass" => {
                    if expired.is_empty() {
                        continue;
                    }
                    let s = rng.pick(&expired).clone();
                    (plan_honest(&ring, &m.domain, &s, &dh, &all_slots(&s)), true, Auth::Only(vec![operator.clone()]), true)
                }
                _ => {
                    let sub = one_short_subset(&mut rng, &newest);
                    (plan_honest(&ring, &m.domain, &newest, &dh, &sub), false, Auth::Nobody, false)
                }
            };
            // a stashed, pre-validated proof: the candidate is the one it was made for
            let (cand, plan, cclass) = if pclass == "prevalidated-when-newest-now-older" {
                let pos = stash.iter().position(|(_, p)| g.model.epoch_of(&p.declared) != Some(g.model.epoch()));
                match pos {
                    Some(i) => {
                        let (c, p) = stash.remove(i);
                        (c, p, "fresh")
                    }
                    None => continue,
                }
            } else {
                (cand, plan, cclass)
            };
            let class_sig = format!("{}+{}", cclass, pclass);
            rep.count(&format!("cand:{}", cclass));
            rep.count(&format!("proof:{}", pclass));
            if rep.samples.len() < 4 && rng.chance(1, 40) {
                rep.sample(json!({"candidate": cclass, "proof": pclass, "signers": cand.signers.len(), "threshold": cand.threshold.to_string(), "epoch": m.epoch()}));
            }
            if !rotation_step(ctx, rep, &mut u, &mut g, &cand, &plan, bypass, auth, op_auth, "rotate", &class_sig, if bypass { &["C03", "C08"] } else { &["C03"] }) {
                break;
            }
        }
    }
    let mut req: Vec<String> = CAND.iter().map(|c| format!("cand:{}", c)).collect();
    req.extend(PROOF.iter().map(|c| format!("proof:{}", c)));
    req.push("advance-ledger".into());
    req.push("construct-none".into());
    req.push("construct-duplicate-inside".into());
    req.push("construct-malformed-inside".into());
    req.push("construct-three".into());
    rep.notes.insert("required".into(), json!(req));
    rep.notes.insert("rule".into(), json!("3 of 4 universes: gateway (delay 0, retention in {0,1,3}, 1-3 initial sets) and 28 rotation attempts, interleaved with ledger advancement of up to 1.3 M ledgers, = candidate class (12: fresh, total exactly u128::MAX, earlier set with other nonce, empty, adjacent equal keys, descending pair, zero weight, total overflowing u128 at the last, at every or at a middle signer, threshold 0 / total+1, earlier set verbatim, all-zero first key) x proof class (10: newest, a proof checked earlier through validate_proof while its set was the newest and used after it stopped being the newest, older retained with/without bypass, bypass without operator by the newest or an older retained set, unknown set, proof for another candidate, expired set with bypass, one signer short); after every attempt epoch(), signers_hash_by_epoch(0..=epoch+1) and epoch_by_signers_hash(every hash ever seen, including rejected candidates) are compared with the model. 1 of 4 universes: 6 constructor attempts through a factory (0/1/3 sets, duplicate or malformed member inside, same set with other nonce). distinct = (candidate class, proof class, expectation, outcome, epoch)"));
}
