//! C13 — outbound calls are announced exactly, and only under the sender's authority.
//! Event content is compared with independently built ScVals and an independent Keccak-256;
//! the gateway's ledger entries are compared before/after.

use crate::gw::*;
use crate::oracle::*;
use crate::probes::proxy::{Proxy, ProxyClient};
use crate::report::Report;
use crate::rng::Rng;
use crate::univ::*;
use crate::Ctx;
use axelar_gateway::AxelarGatewayClient;
use serde_json::json;
use soroban_sdk::xdr::ScVal;
use soroban_sdk::{Address, Env, IntoVal, Symbol, Val, Vec as SVec};

const LENS: [usize; 11] = [0, 1, 31, 32, 33, 135, 136, 137, 272, 4096, 65536];
const SENDERS: [&str; 8] = ["account", "account-no-auth", "account-stranger-auth", "account-auth-other-args", "account-auth-other-destination-address", "account-auth-other-destination-chain", "contract-self", "contract-names-other"];

/// Ledger entries owned by `sc`, without TTLs (a TTL bump is not a state change here).
fn owned_entries(u: &U, sc: &soroban_sdk::xdr::ScAddress) -> Vec<(soroban_sdk::xdr::LedgerKey, soroban_sdk::xdr::LedgerEntry)> {
    u.snap()
        .into_iter()
        .filter(|(k, _, _)| match k.as_ref() {
            soroban_sdk::xdr::LedgerKey::ContractData(cd) => cd.contract == *sc,
            _ => false,
        })
        .map(|(k, e, _)| ((*k).clone(), (*e).clone()))
        .collect()
}

fn gen_string(rng: &mut Rng) -> Vec<u8> {
    match rng.below(6) {
        0 => vec![],
        1 => b"ethereum".to_vec(),
        2 => rng.bytes(1024),
        3 => "чейн-🪙".as_bytes().to_vec(),
        4 => vec![0xff, 0xfe, 0x00, 0x80],
        _ => {
            let n = 1 + rng.usize(40);
            rng.bytes(n)
        }
    }
}

pub fn run(ctx: &Ctx, rep: &mut Report) {
    let total = ctx.universes(1600, 40000);
    for uni in ctx.my_universes(total) {
        let mut rng = ctx.rng_for(uni);
        rep.begin_universe(uni);
        let mut u = U::new();
        u.blanket_ok = true;
        let mut ring = KeyRing::default();
        let owner = u.principal();
        let operator = u.principal();
        let set = gen_wellformed_set(&mut rng, &mut ring, 2);
        let mut g = Gw::deploy(&mut u, &owner, &operator, rng.bytes32(), 0, 1, &[set]);
        // some message state that must stay untouched
        let app = u.principal();
        let m0 = MMessage {
            source_chain: b"c".to_vec(),
            message_id: b"1".to_vec(),
            source_address: b"s".to_vec(),
            contract: sc_addr(&app),
            payload_hash: rng.bytes32(),
        };
        if !g.approve_honest(&mut u, &ring, &[m0.clone()]) {
            rep.foreign("honest-approval-refused");
            continue;
        }
        // senders: two ordinary accounts, and the gateway's own role holders (whose word counts for
        // nothing here: a sender is a sender)
        let mut users: Vec<Address> = (0..2).map(|_| u.principal()).collect();
        users.push(operator.clone());
        users.push(owner.clone());
        let stranger = u.principal();
        let proxy = u.env.register(Proxy, ());
        u.skip_events();
        let mut window = false;
        let unknown_fns = unknown_entry_points("axelar-gateway", &["__constructor", "approve_messages", "call_contract", "epoch", "epoch_by_signers_hash", "is_message_approved", "is_message_executed", "message_approval", "message_approval_by_key", "message_approval_hash", "rotate_signers", "run_migration", "signers_hash_by_epoch", "validate_message", "validate_proof", "domain_separator", "minimum_rotation_delay", "previous_signers_retention", "gateway", "owner", "operator", "upgrade", "migrate", "version", "transfer_ownership", "transfer_operatorship"]);
        for _ in 0..14 {
            // now and then the gateway is upgraded to the same code; the migration follows a few calls
            // later. While the window is open a valid call may be refused; one that succeeds must be
            // announced like any other
            if !window && rng.chance(1, 12) {
                if u.upgrade_only(&g.addr.clone()).is_ok() {
                    window = true;
                    rep.count("migration-window-opened");
                }
            } else if window && rng.chance(1, 3) {
                let _ = u.migrate_only(&g.addr.clone(), &[]);
                window = false;
                rep.count("upgrade-and-migrate");
            }
            let sender_class = *rng.pick(&SENDERS);
            let len = if rng.chance(1, 12) || (sender_class.starts_with("account-auth-other") && rng.chance(1, 2)) { *rng.pick(&LENS) } else { *rng.pick(&LENS[..9]) };
            let payload = rng.bytes(len);
            let dchain = gen_string(&mut rng);
            let daddr = gen_string(&mut rng);
            let user = rng.pick(&users).clone();
            let gaddr = g.addr.clone();
            let before = owned_entries(&u, &g.sc);
            let (p2, c2, a2) = (payload.clone(), dchain.clone(), daddr.clone());
            let direct = {
                let user = user.clone();
                let gaddr = gaddr.clone();
                move |env: &Env| {
                    let c = AxelarGatewayClient::new(env, &gaddr);
                    flat(c.try_call_contract(&user, &sstr(env, &c2), &sstr(env, &a2), &sbytes(env, &p2)))
                }
            };
            let via_proxy = |named: Address| {
                let gaddr = gaddr.clone();
                let proxy = proxy.clone();
                let (p3, c3, a3) = (payload.clone(), dchain.clone(), daddr.clone());
                move |env: &Env| {
                    let pc = ProxyClient::new(env, &proxy);
                    let args: SVec<Val> = (named.clone(), sstr(env, &c3), sstr(env, &a3), sbytes(env, &p3)).into_val(env);
                    flat(pc.try_fwd(&gaddr, &Symbol::new(env, "call_contract"), &args)).map(|_| ())
                }
            };
            // entry points of the gateway this workload does not know: called in the sender's name
            // toward (chain, address) without any authorisation, and on the sender's authorisation
            // recorded for the same entry point toward another destination. Neither may announce a
            // call in the sender's name.
            for name in &unknown_fns {
                let mk = |c: Vec<u8>, a: Vec<u8>| {
                    let (ga, n, usr, p) = (gaddr.clone(), name.clone(), user.clone(), payload.clone());
                    move |env: &Env| {
                        let args: SVec<Val> = (usr.clone(), sstr(env, &c), sstr(env, &a), sbytes(env, &p)).into_val(env);
                        flat(env.try_invoke_contract::<Val, soroban_sdk::Error>(&ga, &Symbol::new(env, &n), args)).map(|_| ())
                    }
                };
                let (mut c9, mut a9) = (dchain.clone(), daddr.clone());
                c9.push(b'9');
                a9.push(b'9');
                let (_, forest) = u.record(&mk(c9, a9));
                let h = sc_addr(&user);
                let own_for_other: Vec<_> = forest.into_iter().filter(|(x, _)| *x == h).collect();
                for (how, auth) in [("no-authorisation", Auth::Nobody), ("authorisation-for-another-destination", Auth::Forest(own_for_other))] {
                    let o = u.call(auth, &mk(dchain.clone(), daddr.clone()));
                    rep.count("unknown-entry-point-tried");
                    let announced = o.events.iter().any(|e| e.contract == g.sc && e.kind() == "contract_called" && e.topics.get(1) == Some(&sv_addr(&sc_addr(&user))));
                    if o.ok() && announced {
                        rep.violation(&format!("unknown-entry-point-announces-for-the-sender:{}", how), format!("entry point {} announced a call in the sender's name with {}", name, how));
                    }
                }
            }
            let (o, sender_sc, must_ok) = match sender_class {
                "account" => (u.call(Auth::AsRecorded, &direct), sc_addr(&user), true),
                "account-no-auth" => (u.call(Auth::Nobody, &direct), sc_addr(&user), false),
                "account-stranger-auth" => (u.call(Auth::AllBy(stranger.clone()), &direct), sc_addr(&user), false),
                "account-auth-other-args" => {
                    // the sender's authorisation, recorded for another payload
                    let mut other = payload.clone();
                    other.push(0x01);
                    let (c4, a4) = (dchain.clone(), daddr.clone());
                    let (usr, ga) = (user.clone(), gaddr.clone());
                    let (_, forest) = u.record(&move |env: &Env| {
                        let c = AxelarGatewayClient::new(env, &ga);
                        flat(c.try_call_contract(&usr, &sstr(env, &c4), &sstr(env, &a4), &sbytes(env, &other)))
                    });
                    (u.call(Auth::Forest(forest), &direct), sc_addr(&user), false)
                }
                "account-auth-other-destination-address" | "account-auth-other-destination-chain" => {
                    // the sender's authorisation, recorded for the same payload but another destination
                    let (mut c4, mut a4) = (dchain.clone(), daddr.clone());
                    if sender_class == "account-auth-other-destination-address" {
                        a4.push(b'2');
                    } else {
                        c4.push(b'2');
                    }
                    let (usr, ga, p4) = (user.clone(), gaddr.clone(), payload.clone());
                    let (_, forest) = u.record(&move |env: &Env| {
                        let c = AxelarGatewayClient::new(env, &ga);
                        flat(c.try_call_contract(&usr, &sstr(env, &c4), &sstr(env, &a4), &sbytes(env, &p4)))
                    });
                    (u.call(Auth::Forest(forest), &direct), sc_addr(&user), false)
                }
                "contract-self" => (u.call(Auth::Nobody, &via_proxy(proxy.clone())), sc_addr(&proxy), true),
                _ => (u.call(Auth::Nobody, &via_proxy(user.clone())), sc_addr(&user), false),
            };
            rep.step(format!("call_contract sender={} len={} dchain_len={} -> {:?}", sender_class, len, dchain.len(), o.res));
            rep.count(&format!("sender:{}", sender_class));
            rep.count(&format!("len:{}", len));
            rep.eval("call_contract", &format!("{}|len={}|dc={}|da={}|{}", sender_class, len, dchain.len().min(50), daddr.len().min(50), o.ok()), true);
            if rep.samples.len() < 4 && rng.chance(1, 30) {
                rep.sample(json!({"sender": sender_class, "payload_len": len, "destination_chain": hex(&dchain[..dchain.len().min(16)]), "accepted": o.ok()}));
            }
            if let Some(l) = &o.leak {
                rep.violation(&format!("refused-call-left-trace:{}", sender_class), l.clone());
                break;
            }
            if window && must_ok && !o.ok() {
                rep.count("note:valid-request-refused-while-migration-window-open");
                continue;
            }
            if o.ok() != must_ok {
                rep.violation(
                    &format!("call_contract-{}:{}", if o.ok() { "accepted" } else { "refused" }, sender_class),
                    format!("call_contract with sender class {}: {:?}", sender_class, o.res),
                );
                break;
            }
            if !o.ok() {
                continue;
            }
            let want = Ev {
                contract: g.sc.clone(),
                topics: vec![
                    sv_sym("contract_called"),
                    sv_addr(&sender_sc),
                    sv_str(&dchain),
                    sv_str(&daddr),
                    sv_bytes(&keccak(&payload)),
                ],
                data: sv_bytes(&payload),
            };
            let got: Vec<Ev> = o.events.iter().filter(|e| e.contract == g.sc).cloned().collect();
            for e in &got {
                rep.event(&e.kind());
            }
            let called: Vec<&Ev> = got.iter().filter(|e| e.kind() == "contract_called").collect();
            if called.len() != 1 {
                rep.violation("announcement-count", format!("{} contract_called events for one call", called.len()));
                break;
            }
            if *called[0] != want {
                let field = if called[0].topics.len() != want.topics.len() {
                    "topic-count".to_string()
                } else if called[0].data != want.data {
                    "payload".to_string()
                } else {
                    let names = ["kind", "sender", "destination_chain", "destination_address", "payload_hash"];
                    (0..want.topics.len()).find(|i| called[0].topics[*i] != want.topics[*i]).map(|i| names[i].to_string()).unwrap_or("?".into())
                };
                rep.violation(&format!("announcement-content:{}", field), format!("contract_called differs from the call in field {} (payload len {})", field, len));
                break;
            }
            let after = owned_entries(&u, &g.sc);
            if before != after {
                rep.violation("call_contract-changed-gateway-state", "gateway ledger entries differ after call_contract".into());
                break;
            }
            if let Some(d) = g.check_lookups(&mut u).or_else(|| g.check_status(&mut u, &m0)) {
                rep.violation("call_contract-changed-gateway-state", d);
                break;
            }
        }
    }
    let mut req: Vec<String> = SENDERS.iter().map(|s| format!("sender:{}", s)).collect();
    req.extend(LENS.iter().map(|l| format!("len:{}", l)));
    rep.notes.insert("required".into(), json!(req));
    rep.notes.insert("rule".into(), json!("calls with sender in {account with own auth, no auth, stranger's auth, own auth recorded for another payload, for another destination address or for another destination chain, contract calling for itself through a proxy, proxy naming another address}, destination strings (empty, ASCII, 1 KiB random bytes, multi-byte UTF-8, invalid UTF-8), payload lengths {0,1,31,32,33,135,136,137,272,4096,65536}; on success exactly one contract_called event equal to independently built ScVals with an independent Keccak-256, gateway entries (TTL ignored), epoch/lookups and message status unchanged. distinct = (sender class, payload length, destination lengths, outcome)"));
}
