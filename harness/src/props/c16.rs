//! C16 — executable-interface apps act only on approved messages, exactly once.
//! Single-deviation deliveries to the shipped Example app and to a minimal app built on the
//! interface's validation helper; every deviation is delivered before the conforming message.

use crate::gw::*;
use crate::oracle::*;
use crate::probes::miniapp::MiniApp;
use crate::report::Report;
use crate::rng::Rng;
use crate::univ::*;
use crate::Ctx;
use axelar_gas_service::AxelarGasService;
use axelar_gateway::executable::AxelarExecutableClient;
use example::Example;
use serde_json::json;
use soroban_sdk::{Address, Env};

const VARIANTS: &[&str] = &[
    "never-approved",
    "approved-for-other-app",
    "approved-other-payload",
    "approved-other-source-address",
    "approved-other-id",
    "approved-other-chain",
    "truncated-payload",
    "approved-boundary-shifted",
    "conforming",
    "delivered-twice",
    "redelivered-after-reapproval",
];

fn deliver(u: &mut U, app: &Address, chain: &[u8], id: &[u8], src: &[u8], payload: &[u8]) -> CallOut<()> {
    let (app, chain, id, src, payload) = (app.clone(), chain.to_vec(), id.to_vec(), src.to_vec(), payload.to_vec());
    u.call(Auth::Nobody, &move |env: &Env| {
        let c = AxelarExecutableClient::new(env, &app);
        flat(c.try_execute(&sstr(env, &chain), &sstr(env, &id), &sstr(env, &src), &sbytes(env, &payload)))
    })
}

/// Applications wired to a stand-in gateway that answers `validate_message` with a configurable
/// value: they may act only when the answer is the boolean true.
fn standin_gateway(rep: &mut Report) {
    use crate::probes::pgateway::{ProbeGateway, ProbeGatewayClient};
    use soroban_sdk::{IntoVal, Val};
    let mut u = U::new();
    let dummy = u.principal();
    let pg = u.env.register(ProbeGateway, ());
    let example = u.env.register(Example, (&pg, &dummy));
    let mini = u.env.register(MiniApp, (&pg,));
    u.skip_events();
    let env = u.env.clone();
    let answers: Vec<(&str, Val)> = vec![
        ("bool-true", true.into_val(&env)),
        ("bool-false", false.into_val(&env)),
        ("void", Val::VOID.to_val()),
        ("u32-0", 0u32.into_val(&env)),
        ("u32-1", 1u32.into_val(&env)),
        ("string-true", sstr(&env, b"true").to_val()),
    ];
    for (app_name, app, effect_kind) in [("example", example, "executed"), ("miniapp", mini, "mini_executed")] {
        for (class, v) in &answers {
            let ck = u.checkpoint();
            let (pg2, v2) = (pg.clone(), *v);
            u.setup(move |env| ProbeGatewayClient::new(env, &pg2).set_answer(&v2));
            u.skip_events();
            let o = deliver(&mut u, &app, b"Ethereum-X", b"m-1", b"0xsrc", b"payload");
            let effects = o.events.iter().filter(|e| e.kind() == effect_kind).count();
            rep.count(&format!("standin-gateway-answer:{}", class));
            rep.eval("standin-gateway", &format!("standin|{}|{}|{}", app_name, class, o.ok()), true);
            rep.step(format!("{}: stand-in gateway answers {} -> ok={} effects={}", app_name, class, o.ok(), effects));
            let leak = o.leak.clone();
            u.restore(&ck);
            if let Some(l) = leak {
                rep.violation("failed-delivery-left-trace:standin-gateway", l);
                return;
            }
            let want = *class == "bool-true";
            if o.ok() != want || effects != usize::from(want) {
                rep.violation(
                    &format!("standin-gateway:{}:{}:{}", app_name, class, if o.ok() { "accepted" } else { "refused" }),
                    format!("the gateway answered {} to validate_message; {}'s execute -> ok={}, {} effect events", class, app_name, o.ok(), effects),
                );
                return;
            }
        }
    }
}

pub fn run(ctx: &Ctx, rep: &mut Report) {
    let total = ctx.universes(1000, 40000);
    for uni in ctx.my_universes(total) {
        let mut rng = ctx.rng_for(uni);
        rep.begin_universe(uni);
        if uni == 0 {
            // once per run: the history recorded under the pinned version, continued by the current code
            crate::legacy::run(rep, "C16");
        }
        if uni % 10 == 0 {
            standin_gateway(rep);
        }
        let mut u = U::new();
        let mut ring = KeyRing::default();
        let owner = u.principal();
        let operator = u.principal();
        let set = gen_wellformed_set(&mut rng, &mut ring, 3);
        let mut g = Gw::deploy(&mut u, &owner, &operator, rng.bytes32(), 0, 1, &[set]);
        let gs = u.env.register(AxelarGasService, (&owner, &operator));
        let example = u.env.register(Example, (&g.addr, &gs));
        let mini = u.env.register(MiniApp, (&g.addr,));
        let other_app = u.env.register(MiniApp, (&g.addr,));
        u.skip_events();
        let apps = [("example", example, "executed"), ("miniapp", mini, "mini_executed")];
        let mut ctr = 0u32;
        let mut alive = true;
        let mut gw_window = false;
        for round in 0..3 {
            if !alive {
                break;
            }
            for (app_name, app, effect_kind) in apps.iter() {
                if !alive {
                    break;
                }
                let app_sc = sc_addr(app);
                ctr += 1;
                let chain = rng.pick(&[b"ethereum".to_vec(), b"e".to_vec(), b"".to_vec(), b"Ethereum-Sepolia".to_vec(), "Ætherium ü".as_bytes().to_vec()]).clone();
                // message ids of ordinary and of unusual length
                let mut id = format!("msg-{}-{}", round, ctr).into_bytes();
                if rng.chance(1, 4) {
                    let len = *rng.pick(&[65usize, 129, 200, 300, 1100]);
                    while id.len() < len {
                        id.push(b"0123456789abcdefXYZ"[id.len() % 19]);
                    }
                }
                let src = format!("0x{}", hex(&rng.bytes(6))).into_bytes();
                let payload = if rng.chance(1, 6) { rng.bytes_of(&[1100, 4200, 9000, 17000]) } else { rng.bytes_upto(80) };
                let conforming = MMessage {
                    source_chain: chain.clone(),
                    message_id: id.clone(),
                    source_address: src.clone(),
                    contract: app_sc.clone(),
                    payload_hash: keccak(&payload),
                };
                let mut order: Vec<&str> = VARIANTS[..8].to_vec();
                rng.shuffle(&mut order);
                order.truncate(3 + rng.usize(5));
                order.push("conforming");
                order.push("delivered-twice");
                order.push("redelivered-after-reapproval");
                let mut conforming_approved = false;
                for variant in order {
                    // what is approved for this attempt, and what is delivered
                    let mut approved: Option<MMessage> = None;
                    let (mut dchain, mut did, mut dsrc, mut dpayload) = (chain.clone(), id.clone(), src.clone(), payload.clone());
                    let fresh = format!("dev-{}-{}-{}", round, ctr, variant).into_bytes();
                    match variant {
                        "never-approved" => {
                            did = fresh.clone();
                        }
                        "approved-for-other-app" => {
                            did = fresh.clone();
                            let mut a = conforming.clone();
                            a.message_id = did.clone();
                            a.contract = sc_addr(&other_app);
                            approved = Some(a);
                        }
                        "approved-other-payload" => {
                            did = fresh.clone();
                            let mut a = conforming.clone();
                            a.message_id = did.clone();
                            let mut p2 = payload.clone();
                            p2.push(1);
                            a.payload_hash = keccak(&p2);
                            approved = Some(a);
                        }
                        "approved-other-source-address" => {
                            did = fresh.clone();
                            let mut a = conforming.clone();
                            a.message_id = did.clone();
                            // another address: longer, or the same in another letter case
                            let flipped: Vec<u8> = a.source_address.iter().map(|c| if c.is_ascii_lowercase() { c.to_ascii_uppercase() } else { c.to_ascii_lowercase() }).collect();
                            if flipped != a.source_address && rng.chance(1, 2) {
                                a.source_address = flipped;
                            } else {
                                a.source_address.push(b'f');
                            }
                            approved = Some(a);
                        }
                        "approved-other-id" => {
                            let mut a = conforming.clone();
                            a.message_id = fresh.clone();
                            approved = Some(a);
                            did = [fresh.clone(), b"-x".to_vec()].concat();
                        }
                        "approved-other-chain" => {
                            did = fresh.clone();
                            let mut a = conforming.clone();
                            a.message_id = did.clone();
                            a.source_chain = [chain.clone(), b"2".to_vec()].concat();
                            approved = Some(a);
                        }
                        "approved-boundary-shifted" => {
                            // approved for (chain + d + p, q), delivered as (chain, p + d + q): the
                            // same bytes once chain and id are joined with a delimiter
                            let d = *rng.pick(&[&b"_"[..], b"-", b":", b"/", b"\0", b"|", b""]);
                            let p = b"part".to_vec();
                            did = [p.clone(), d.to_vec(), fresh.clone()].concat();
                            let mut a = conforming.clone();
                            a.source_chain = [chain.clone(), d.to_vec(), p].concat();
                            a.message_id = fresh.clone();
                            approved = Some(a);
                        }
                        "truncated-payload" => {
                            did = fresh.clone();
                            let mut a = conforming.clone();
                            a.message_id = did.clone();
                            let mut p2 = payload.clone();
                            p2.extend_from_slice(b"tail");
                            a.payload_hash = keccak(&p2);
                            approved = Some(a);
                        }
                        "conforming" => {
                            approved = Some(conforming.clone());
                            conforming_approved = true;
                        }
                        "redelivered-after-reapproval" => {
                            // the very same approval is relayed again after the message was executed
                            approved = Some(conforming.clone());
                        }
                        _ => {}
                    }
                    // sometimes a long time passes before the approval is relayed (again)
                    if rng.chance(1, 5) {
                        let d = rng.ledger_jump();
                        if u.advance(d) {
                            rep.count("advance-ledger-before-approval");
                        }
                    }
                    if let Some(a) = &approved {
                        if !g.approve_honest(&mut u, &ring, &[a.clone()]) {
                            if gw_window {
                                // a gateway may refuse approvals while it migrates
                                rep.count("note:valid-request-refused-while-migration-window-open");
                                continue;
                            }
                            rep.foreign("honest-approval-refused");
                            alive = false;
                            break;
                        }
                    }
                    // now and then the gateway is upgraded (to the same code) between the approval and the
                    // delivery and migrated a few deliveries later: inside that window a delivery may be
                    // refused, but one that is accepted consumes its approval like any other
                    if !gw_window && rng.chance(1, 10) {
                        let ga = g.addr.clone();
                        if u.upgrade_only(&ga).is_ok() {
                            gw_window = true;
                            rep.count("gateway-migration-window-opened");
                            rep.step("the gateway is upgraded to the same code: its migration window opens".into());
                        }
                    } else if gw_window && rng.chance(1, 4) {
                        let ga = g.addr.clone();
                        if u.migrate_only(&ga, &[]).is_ok() {
                            gw_window = false;
                            rep.step("the gateway's migration runs: the window closes".into());
                        }
                    }
                    // sometimes a long time passes between the approval and the delivery
                    if rng.chance(1, 6) {
                        let d = rng.ledger_jump();
                        if u.advance(d) {
                            rep.count("advance-ledger-before-delivery");
                        }
                    }
                    let delivered = MMessage {
                        source_chain: dchain.clone(),
                        message_id: did.clone(),
                        source_address: dsrc.clone(),
                        contract: app_sc.clone(),
                        payload_hash: keccak(&dpayload),
                    };
                    let must_ok = g.model.consumable(&delivered);
                    rep.step(format!("{} <- {} id={:?} must_ok={}", app_name, variant, lossy(&did), must_ok));
                    let o = deliver(&mut u, app, &dchain, &did, &dsrc, &dpayload);
                    rep.count(&format!("variant:{}", variant));
                    rep.count(&format!("app:{}", app_name));
                    rep.eval(variant, &format!("{}|{}|{}|{}", app_name, variant, must_ok, o.ok()), true);
                    if rep.samples.len() < 4 && rng.chance(1, 40) {
                        rep.sample(json!({"app": app_name, "variant": variant, "payload_len": dpayload.len(), "accepted": o.ok()}));
                    }
                    if let Some(l) = &o.leak {
                        rep.violation(&format!("failed-delivery-left-trace:{}:{}", app_name, variant), l.clone());
                        alive = false;
                        break;
                    }
                    let effects: Vec<&Ev> = o.events.iter().filter(|e| e.contract == app_sc && e.kind() == *effect_kind).collect();
                    if !must_ok {
                        if o.ok() {
                            rep.violation(
                                &format!("unapproved-delivery-{}:{}:{}", if effects.is_empty() { "accepted" } else { "executed" }, app_name, variant),
                                format!("{} accepted a delivery of class {} (no matching unexecuted approval) and emitted {} effect events", app_name, variant, effects.len()),
                            );
                            alive = false;
                            break;
                        }
                        // the approval (if any) must still be there, untouched
                        if let Some(a) = &approved {
                            if let Some(d) = g.check_status(&mut u, a) {
                                rep.violation("failed-delivery-consumed-approval", d);
                                alive = false;
                                break;
                            }
                        }
                        continue;
                    }
                    if !o.ok() && gw_window {
                        rep.count("note:valid-request-refused-while-migration-window-open");
                        continue;
                    }
                    if !o.ok() {
                        rep.violation(&format!("conforming-delivery-refused:{}", app_name), format!("{:?}", o.res));
                        alive = false;
                        break;
                    }
                    if effects.len() != 1 {
                        rep.violation(&format!("effect-count:{}", app_name), format!("{} effect events for one delivery", effects.len()));
                        alive = false;
                        break;
                    }
                    rep.event(effect_kind);
                    let executed: Vec<&Ev> = o.events.iter().filter(|e| e.contract == g.sc && e.kind() == "message_executed").collect();
                    if executed.len() != 1 || *executed[0] != g.ev_executed(&delivered) {
                        rep.violation(&format!("gateway-not-consumed:{}", app_name), "conforming delivery did not consume exactly its approval".into());
                        alive = false;
                        break;
                    }
                    g.model.apply_consume(&delivered);
                    if let Some(d) = g.check_status(&mut u, &delivered) {
                        rep.violation("status-after-delivery", d);
                        alive = false;
                        break;
                    }
                }
                let _ = conforming_approved;
            }
        }
    }
    let mut req: Vec<String> = VARIANTS.iter().map(|v| format!("variant:{}", v)).collect();
    req.push("advance-ledger-before-delivery".into());
    req.push("app:example".into());
    req.push("app:miniapp".into());
    rep.notes.insert("required".into(), json!(req));
    rep.notes.insert("rule".into(), json!("per universe 3 rounds x 2 apps (the shipped Example, a minimal app using the interface's validate_message helper): for one conforming delivery, a random subset of 7 single deviations (never approved; approved for another app / payload / source address / id / chain; longer payload approved) is delivered first, then the conforming delivery, then the same delivery again, then once more after the same approval was relayed again; a delivery must succeed iff the gateway model holds an unexecuted approval of exactly (chain, id, source address, app, keccak(payload)); failed deliveries are diffed against the pre-state and must leave their approval intact. distinct = (app, variant, expectation, outcome)"));
}
