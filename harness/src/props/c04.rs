//! C04 — ITS acts only on approved, well-formed hub messages from trusted chains.
//! For every conforming delivery, single-deviation variants are delivered first (each at a
//! checkpoint, each must fail and leave the ledger untouched), then the conforming delivery
//! (must succeed, effects checked), then the same delivery again (must fail).

use crate::gw::*;
use crate::its::*;
use crate::oracle::*;
use crate::probes::its_exec::ProbeExecutableClient;
use crate::report::Report;
use crate::rng::Rng;
use crate::tok::*;
use crate::univ::*;
use crate::Ctx;
use serde_json::json;
use soroban_sdk::xdr::ScVal;
use soroban_sdk::{Address, Env};

const KINDS: [&str; 4] = ["transfer-native", "transfer-lock", "transfer-with-data", "deploy"];
const DEVIATIONS: &[&str] = &[
    "never-approved",
    "approved-other-payload",
    "approved-other-id",
    "approved-boundary-shifted",
    "approved-other-source-address",
    "approved-for-other-contract",
    "source-chain-not-hub",
    "source-address-not-hub",
    "outer-type-send-to-hub",
    "outer-type-out-of-range",
    "inner-type-unsupported",
    "outer-type-dirty-high-bytes",
    "inner-type-dirty-high-bytes",
    "origin-never-trusted",
    "origin-trust-removed",
    "unknown-token",
    "undecodable-recipient",
    "undecodable-minter",
    "amount-2^127",
    "amount-2^128-1",
    "amount-2^255",
    "amount-2^128-plus-small",
    "payload-truncated",
    "payload-padded",
    "payload-noncanonical-offset",
    "inner-payload-padded",
    "insufficient-custody",
    "application-fails",
    "deploy-taken-id",
    "deploy-empty-name",
    "deploy-empty-symbol",
];

#[derive(Clone)]
struct Conforming {
    kind: &'static str,
    origin: Vec<u8>,
    token_id: [u8; 32],
    source: Vec<u8>,
    recipient: Address,
    amount: u128,
    data: Vec<u8>,
    // deploy
    name: Vec<u8>,
    symbol: Vec<u8>,
    decimals: u8,
    minter: Option<Address>,
}

impl Conforming {
    fn inner(&self) -> MItsMsg {
        if self.kind == "deploy" {
            MItsMsg::Deploy {
                token_id: self.token_id,
                name: self.name.clone(),
                symbol: self.symbol.clone(),
                decimals: self.decimals,
                minter: self.minter.as_ref().map(addr_bytes).unwrap_or_default(),
            }
        } else {
            MItsMsg::Transfer {
                token_id: self.token_id,
                source: self.source.clone(),
                dest: addr_bytes(&self.recipient),
                amount: self.amount,
                amount_hi: 0,
                data: self.data.clone(),
            }
        }
    }
    fn payload(&self) -> Vec<u8> {
        MHubMsg { to_hub: false, chain: self.origin.clone(), inner: self.inner() }.encode()
    }
}

struct Attempt {
    approve: Option<(Vec<u8>, Vec<u8>, Vec<u8>, Vec<u8>, bool)>, // (chain, id, src, payload, for_its)
    deliver: (Vec<u8>, Vec<u8>, Vec<u8>, Vec<u8>),               // (chain, id, src, payload)
}

fn app_log_len(w: &mut ItsWorld) -> u32 {
    let a = w.app.clone();
    w.u.query(move |env| ProbeExecutableClient::new(env, &a).log().len())
}

/// Execute one attempt (approval + delivery). When `rollback`, the ledger and the gateway model
/// are restored afterwards.
fn attempt(w: &mut ItsWorld, a: &Attempt, rollback: bool) -> Result<CallOut<()>, String> {
    let ck = w.u.checkpoint();
    let gm = w.g.model.clone();
    let mut res: Result<CallOut<()>, String> = Err("approval refused".into());
    let mut ok_to_go = true;
    if let Some((c, i, s, p, for_its)) = &a.approve {
        let m = MMessage {
            source_chain: c.clone(),
            message_id: i.clone(),
            source_address: s.clone(),
            contract: if *for_its { w.its_sc.clone() } else { sc_addr(&w.app) },
            payload_hash: keccak(p),
        };
        ok_to_go = w.g.approve_honest(&mut w.u, &w.ring, &[m]);
    }
    if ok_to_go {
        let (c, i, s, p) = &a.deliver;
        res = Ok(w.do_execute(c, i, s, p));
    }
    if rollback {
        w.u.restore(&ck);
        w.g.model = gm;
    }
    res
}

/// A service wired to a stand-in gateway that answers `validate_message` with a configurable
/// value: the service may act only when the answer is the boolean true. Anything else - false, or
/// a value that is not a boolean at all - is not an approval.
fn standin_gateway(rep: &mut Report, rng: &mut Rng) {
    use crate::probes::pgateway::{ProbeGateway, ProbeGatewayClient};
    use interchain_token_service::{InterchainTokenService, InterchainTokenServiceClient};
    use soroban_sdk::{IntoVal, Val};
    let mut u = U::new();
    let owner = u.principal();
    let recipient = u.principal();
    let dummy = u.principal();
    let pg = u.env.register(ProbeGateway, ());
    let env = u.env.clone();
    let its2 = env.register(InterchainTokenService, (&owner, &pg, &dummy, sstr(&env, b"hub"), sstr(&env, b"stellar"), native_hash(&env)));
    let admin = u.principal();
    let sac = make_token(&mut u, TokKind::Sac, &admin, rng);
    let (i2, t2) = (its2.clone(), sac.addr.clone());
    let id: [u8; 32] = u.setup(move |env| {
        let c = InterchainTokenServiceClient::new(env, &i2);
        c.set_trusted_chain(&sstr(env, b"Ethereum-X"));
        c.register_canonical_token(&t2).to_array()
    });
    mint(&mut u, &sac, &its2, 1000);
    u.skip_events();
    let payload = MHubMsg { to_hub: false, chain: b"Ethereum-X".to_vec(), inner: MItsMsg::Transfer { token_id: id, source: b"0xsrc".to_vec(), dest: addr_bytes(&recipient), amount: 10, amount_hi: 0, data: vec![] } }.encode();
    let answers: Vec<(&str, Val)> = vec![
        ("bool-true", true.into_val(&env)),
        ("bool-false", false.into_val(&env)),
        ("void", Val::VOID.to_val()),
        ("u32-0", 0u32.into_val(&env)),
        ("u32-1", 1u32.into_val(&env)),
        ("i128-1", 1i128.into_val(&env)),
        ("string-true", sstr(&env, b"true").to_val()),
        ("symbol-true", soroban_sdk::Symbol::new(&env, "true").to_val()),
    ];
    for (class, v) in answers {
        let ck = u.checkpoint();
        let pg2 = pg.clone();
        u.setup(move |env| ProbeGatewayClient::new(env, &pg2).set_answer(&v));
        u.skip_events();
        let before = balance(&mut u, &sac.addr, &recipient);
        let (i2, p2) = (its2.clone(), payload.clone());
        let o = u.call(Auth::Nobody, &move |env: &Env| {
            let c = axelar_gateway::executable::AxelarExecutableClient::new(env, &i2);
            flat(c.try_execute(&sstr(env, HUB_CHAIN), &sstr(env, b"m-1"), &sstr(env, b"hub"), &sbytes(env, &p2)))
        });
        let after = balance(&mut u, &sac.addr, &recipient);
        rep.count(&format!("standin-gateway-answer:{}", class));
        rep.eval("standin-gateway", &format!("standin|{}|{}", class, o.ok()), true);
        rep.step(format!("stand-in gateway answers {} -> ok={} credited={}", class, o.ok(), after - before));
        let leak = o.leak.clone();
        u.restore(&ck);
        if let Some(l) = leak {
            rep.violation("rejected-delivery-left-trace:standin-gateway", l);
            return;
        }
        let want = class == "bool-true";
        if o.ok() != want || (after - before != if want { 10 } else { 0 }) {
            rep.violation(
                &format!("standin-gateway:{}:{}", class, if o.ok() { "accepted" } else { "refused" }),
                format!("the gateway answered {} to validate_message; the service's execute -> ok={}, credited {}", class, o.ok(), after - before),
            );
            return;
        }
    }
}

pub fn run(ctx: &Ctx, rep: &mut Report) {
    let total = ctx.universes(640, 30000);
    for uni in ctx.my_universes(total) {
        let mut rng = ctx.rng_for(uni);
        rep.begin_universe(uni);
        if uni == 0 {
            // once per run: the history recorded under the pinned version, continued by the current code
            crate::legacy::run(rep, "C04");
        }
        if uni % 8 == 0 {
            standin_gateway(rep, &mut rng);
        }
        let hub_addr: Vec<u8> = rng.pick(&[b"axelar1hubaddressxyz".to_vec(), b"hub".to_vec()]).clone();
        let mut w = ItsWorld::new(&mut rng, b"stellar", &hub_addr, 3);
        w.trust(b"ethereum");
        w.trust(b"Avalanche-Fuji");
        w.trust(b"temp");
        // "temp" is trusted and removed again
        {
            let (its, owner) = (w.its.clone(), w.owner.clone());
            w.u.setup(move |env| {
                interchain_token_service::InterchainTokenServiceClient::new(env, &its).remove_trusted_chain(&sstr(env, b"temp"));
            });
            w.model.trusted.remove(&b"temp".to_vec());
        }
        // a service-deployed token (supply 0, no minter) and a canonical asset with custody
        let deployer = w.users[0].clone();
        let salt = rng.bytes32();
        let o = w.do_deploy(&deployer, &salt, b"Native", b"NTV", 7, 0, None, Auth::Only(vec![deployer.clone()]));
        let native_id = match o.res {
            Ok(id) => id,
            Err(_) => {
                rep.foreign("setup-deployment-refused");
                continue;
            }
        };
        let native_addr = w.token_addr(&native_id);
        let admin = w.users[2].clone();
        let sac = make_token(&mut w.u, TokKind::Sac, &admin, &mut rng);
        let o = w.do_register_canonical(&sac.addr);
        let lock_id = match o.res {
            Ok(id) => id,
            Err(_) => {
                rep.foreign("setup-registration-refused");
                continue;
            }
        };
        // custody: users[1] locks 1000 through an outbound transfer (set-up traffic)
        let locker = w.users[1].clone();
        mint(&mut w.u, &sac, &locker, 1000);
        w.fund_gas(&locker, 10);
        let o = w.do_transfer(&locker, &lock_id, b"ethereum", b"0xdest", 1000, None, &w.gas.addr.clone(), 1, Auth::Only(vec![locker.clone()]));
        if !o.ok() {
            rep.foreign("setup-lock-refused");
            continue;
        }
        let mut custody: i128 = 1000;
        let mut deployed_remote: Vec<[u8; 32]> = Vec::new();
        let mut alive = true;
        let mut window: Option<Address> = None;
        for round in 0..5 {
            if !alive {
                break;
            }
            // the service (or the gateway) is upgraded to the same code in some rounds and migrated
            // a round later: meanwhile a conforming delivery may be refused, but none of the
            // deviating ones may take effect
            match window.clone() {
                None => {
                    if rng.chance(1, 5) {
                        let a = if rng.chance(2, 3) { w.its.clone() } else { w.g.addr.clone() };
                        if w.u.upgrade_only(&a).is_ok() {
                            window = Some(a);
                            rep.count("migration-window-opened");
                            rep.step("upgrade to the same code: the migration window opens".into());
                        }
                    }
                }
                Some(a) => {
                    let _ = w.u.migrate_only(&a, &[]);
                    window = None;
                    rep.count("upgrade-and-migrate");
                    rep.step("migration: the window closes".into());
                }
            }
            if rng.chance(1, 3) {
                let d = rng.ledger_jump();
                if w.u.advance(d) {
                    rep.count("advance-ledger");
                    if let Some(dd) = w.check_registry() {
                        rep.violation("registry-or-trust-changed-by-passing-time", dd);
                        break;
                    }
                }
            }
            // trusted-chain history: avalanche's trust flips between rounds
            if rng.chance(1, 2) {
                let now = w.model.trusted.contains(&b"Avalanche-Fuji".to_vec());
                let o = w.do_set_trusted(b"Avalanche-Fuji", !now, Auth::Only(vec![w.owner.clone()]));
                if !o.ok() {
                    rep.foreign("trusted-chain-change-refused");
                    break;
                }
                if now {
                    w.model.trusted.remove(&b"Avalanche-Fuji".to_vec());
                } else {
                    w.model.trusted.insert(b"Avalanche-Fuji".to_vec());
                }
            }
            let trusted_now: Vec<Vec<u8>> = w.model.trusted.iter().cloned().collect();
            let removed_now: Vec<Vec<u8>> = [b"temp".to_vec(), b"Avalanche-Fuji".to_vec()].iter().filter(|c| !w.model.trusted.contains(*c)).cloned().collect();
            let kind = KINDS[rng.usize(4)];
            let conf = Conforming {
                kind,
                origin: rng.pick(&trusted_now).clone(),
                token_id: match kind {
                    "transfer-lock" => lock_id,
                    "deploy" => rng.bytes32(),
                    _ => native_id,
                },
                // sizes straddle the thresholds an implementation might switch behaviour at
                source: rng.bytes_of(&[0, 1, 20, 32, 32, 20, 300, 1500, 5000, 17000]),
                recipient: if kind == "transfer-with-data" { w.app.clone() } else { w.users[rng.usize(3)].clone() },
                amount: match kind {
                    "transfer-lock" => 1 + rng.below(custody.max(1) as u64) as u128,
                    _ => *rng.pick(&[1u128, 1000, 1u128 << 100]),
                },
                data: if kind == "transfer-with-data" { rng.bytes_of(&[1, 7, 32, 40, 40, 7, 1100, 4100, 9000]) } else { vec![] },
                name: "Remote Ⓣ".as_bytes().to_vec(),
                symbol: b"RMT".to_vec(),
                decimals: *rng.pick(&[0u8, 6, 255]),
                minter: if rng.chance(1, 2) { Some(w.users[1].clone()) } else { None },
            };
            if kind == "transfer-lock" && custody <= 0 {
                continue;
            }
            let payload = conf.payload();
            let mid = w.fresh_id();
            let hub = hub_addr.clone();
            // ------------------------------------------------------------ deviations first
            let mut devs: Vec<&str> = DEVIATIONS.to_vec();
            rng.shuffle(&mut devs);
            devs.truncate(13);
            for dev in devs {
                if !alive {
                    break;
                }
                let did = [mid.clone(), b"-".to_vec(), dev.as_bytes().to_vec()].concat();
                let full = |p: Vec<u8>| Attempt { approve: Some((HUB_CHAIN.to_vec(), did.clone(), hub.clone(), p.clone(), true)), deliver: (HUB_CHAIN.to_vec(), did.clone(), hub.clone(), p) };
                let mut c2 = conf.clone();
                let mut expect_either = false;
                let att: Attempt = match dev {
                    "never-approved" => Attempt { approve: None, deliver: (HUB_CHAIN.to_vec(), did.clone(), hub.clone(), payload.clone()) },
                    "approved-other-payload" => {
                        if kind == "deploy" {
                            c2.name.push(b'!');
                        } else {
                            c2.source.push(7);
                        }
                        Attempt { approve: Some((HUB_CHAIN.to_vec(), did.clone(), hub.clone(), c2.payload(), true)), deliver: (HUB_CHAIN.to_vec(), did.clone(), hub.clone(), payload.clone()) }
                    }
                    "approved-other-id" => Attempt { approve: Some((HUB_CHAIN.to_vec(), [did.clone(), b"'".to_vec()].concat(), hub.clone(), payload.clone(), true)), deliver: (HUB_CHAIN.to_vec(), did.clone(), hub.clone(), payload.clone()) },
                    "approved-boundary-shifted" => {
                        // approved for (hub chain + d + p, q), delivered as (hub chain, p + d + q)
                        let d = *rng.pick(&[&b"_"[..], b"-", b":", b"/", b"\0", b"|", b""]);
                        let q = did.clone();
                        let shifted = [b"p".to_vec(), d.to_vec(), q.clone()].concat();
                        Attempt { approve: Some(([HUB_CHAIN.to_vec(), d.to_vec(), b"p".to_vec()].concat(), q, hub.clone(), payload.clone(), true)), deliver: (HUB_CHAIN.to_vec(), shifted, hub.clone(), payload.clone()) }
                    }
                    "approved-other-source-address" => Attempt { approve: Some((HUB_CHAIN.to_vec(), did.clone(), [hub.clone(), b"2".to_vec()].concat(), payload.clone(), true)), deliver: (HUB_CHAIN.to_vec(), did.clone(), hub.clone(), payload.clone()) },
                    "approved-for-other-contract" => Attempt { approve: Some((HUB_CHAIN.to_vec(), did.clone(), hub.clone(), payload.clone(), false)), deliver: (HUB_CHAIN.to_vec(), did.clone(), hub.clone(), payload.clone()) },
                    "source-chain-not-hub" => {
                        let ch = rng.pick(&[b"ethereum".to_vec(), b"axelar2".to_vec(), b"Axelar".to_vec(), b"".to_vec()]).clone();
                        Attempt { approve: Some((ch.clone(), did.clone(), hub.clone(), payload.clone(), true)), deliver: (ch, did.clone(), hub.clone(), payload.clone()) }
                    }
                    "source-address-not-hub" => {
                        let s = rng.pick(&[b"attacker-contract-on-axelar".to_vec(), [hub.clone(), b"x".to_vec()].concat(), b"".to_vec()]).clone();
                        Attempt { approve: Some((HUB_CHAIN.to_vec(), did.clone(), s.clone(), payload.clone(), true)), deliver: (HUB_CHAIN.to_vec(), did.clone(), s, payload.clone()) }
                    }
                    "outer-type-send-to-hub" => full(MHubMsg { to_hub: true, chain: conf.origin.clone(), inner: conf.inner() }.encode()),
                    "outer-type-out-of-range" => {
                        let mut p = payload.clone();
                        p[..32].copy_from_slice(&word_u(*rng.pick(&[5u128, 6, 255, 1 << 64])));
                        if rng.chance(1, 4) {
                            p[0] = 0x80;
                        }
                        full(p)
                    }
                    "inner-type-unsupported" => {
                        let mut inner = conf.inner().encode();
                        inner[..32].copy_from_slice(&word_u(*rng.pick(&[2u128, 3, 4, 5, 77])));
                        full(hub_wrap(4, &conf.origin, &inner))
                    }
                    "outer-type-dirty-high-bytes" => {
                        // the low byte says receive-from-hub, higher bytes are not zero
                        let mut p = payload.clone();
                        let k = *rng.pick(&[0usize, 1, 15, 16, 29, 30]);
                        p[k] = *rng.pick(&[0x01u8, 0x80, 0xff]);
                        full(p)
                    }
                    "inner-type-dirty-high-bytes" => {
                        let mut inner = conf.inner().encode();
                        let k = *rng.pick(&[0usize, 1, 15, 16, 29, 30]);
                        inner[k] = *rng.pick(&[0x01u8, 0x80, 0xff]);
                        full(hub_wrap(4, &conf.origin, &inner))
                    }
                    "origin-never-trusted" => {
                        // (the hub's own chain name is not in the trusted set of this world either)
                        c2.origin = rng.pick(&[b"polygon".to_vec(), b"".to_vec(), b"Ethereum".to_vec(), b"ethereum ".to_vec(), HUB_CHAIN.to_vec(), HUB_CHAIN.to_vec()]).clone();
                        full(c2.payload())
                    }
                    "origin-trust-removed" => {
                        c2.origin = rng.pick(&removed_now).clone();
                        full(c2.payload())
                    }
                    "unknown-token" => {
                        if kind == "deploy" {
                            continue;
                        }
                        c2.token_id = rng.bytes32();
                        full(c2.payload())
                    }
                    "undecodable-recipient" => {
                        if kind == "deploy" {
                            continue;
                        }
                        let good = addr_bytes(&conf.recipient);
                        let bad: Vec<u8> = match rng.below(7) {
                            0 => vec![],
                            1 => good[..good.len() - 1].to_vec(),
                            2 => rng.bytes(32),
                            3 => [good.clone(), vec![0]].concat(),
                            // well-formed XDR of values that are not addresses
                            4 => xdr_of(&sv_str(b"GAAAAAAAAAAAAAAAAAAAAAAAAAAAAAAAAAAAAAAAAAAAAAAAAAAAAWHF")),
                            5 => xdr_of(&sv_u32(42)),
                            _ => xdr_of(&sv_bytes(&good)),
                        };
                        let inner = MItsMsg::Transfer { token_id: conf.token_id, source: conf.source.clone(), dest: bad, amount: conf.amount, amount_hi: 0, data: conf.data.clone() };
                        full(MHubMsg { to_hub: false, chain: conf.origin.clone(), inner }.encode())
                    }
                    "undecodable-minter" => {
                        if kind != "deploy" {
                            continue;
                        }
                        let bad: Vec<u8> = match rng.below(6) {
                            0 => vec![1, 2, 3],
                            1 => rng.bytes(32),
                            2 => {
                                let g = addr_bytes(&w.users[0]);
                                g[..g.len() - 2].to_vec()
                            }
                            // well-formed XDR of values that are not addresses
                            3 => xdr_of(&sv_str(b"0xminter")),
                            4 => xdr_of(&sv_u32(42)),
                            _ => xdr_of(&sv_vec(vec![sv_addr(&sc_addr(&w.users[0]))])),
                        };
                        let inner = MItsMsg::Deploy { token_id: conf.token_id, name: conf.name.clone(), symbol: conf.symbol.clone(), decimals: conf.decimals, minter: bad };
                        full(MHubMsg { to_hub: false, chain: conf.origin.clone(), inner }.encode())
                    }
                    "amount-2^127" | "amount-2^128-1" | "amount-2^255" | "amount-2^128-plus-small" => {
                        if kind == "deploy" {
                            continue;
                        }
                        let (lo, hi) = match dev {
                            "amount-2^127" => (1u128 << 127, 0u128),
                            "amount-2^128-1" => (u128::MAX, 0),
                            "amount-2^128-plus-small" => (1000, *rng.pick(&[1u128, 1 << 20, 1 << 63, (1 << 64) - 1])),
                            _ => (0, 1u128 << 127),
                        };
                        let inner = MItsMsg::Transfer { token_id: conf.token_id, source: conf.source.clone(), dest: addr_bytes(&conf.recipient), amount: lo, amount_hi: hi, data: conf.data.clone() };
                        full(MHubMsg { to_hub: false, chain: conf.origin.clone(), inner }.encode())
                    }
                    "payload-truncated" => {
                        let cut = if rng.chance(1, 2) { payload.len() - 32 } else { rng.usize(payload.len()) };
                        full(payload[..cut].to_vec())
                    }
                    "payload-padded" => {
                        let mut p = payload.clone();
                        p.extend(std::iter::repeat(0u8).take(*rng.pick(&[1usize, 32, 64])));
                        full(p)
                    }
                    "payload-noncanonical-offset" => {
                        // shift the tail by one word: offsets +32 and an inserted gap word
                        let mut p = payload.clone();
                        let head = 96;
                        let mut q = p[..head].to_vec();
                        q[32..64].copy_from_slice(&word_u(0x60 + 32));
                        let off2 = u128::from_be_bytes(p[64 + 16..96].try_into().unwrap());
                        q[64..96].copy_from_slice(&word_u(off2 + 32));
                        q.extend_from_slice(&[0u8; 32]);
                        q.extend_from_slice(&p.split_off(head));
                        full(q)
                    }
                    "inner-payload-padded" => {
                        let mut inner = conf.inner().encode();
                        inner.extend(std::iter::repeat(0u8).take(*rng.pick(&[32usize, 64])));
                        full(hub_wrap(4, &conf.origin, &inner))
                    }
                    "insufficient-custody" => {
                        if kind != "transfer-lock" {
                            continue;
                        }
                        c2.amount = custody as u128 + 1;
                        full(c2.payload())
                    }
                    "application-fails" => {
                        if kind != "transfer-with-data" {
                            continue;
                        }
                        let a = w.app.clone();
                        let fk = rng.below(2) as u32;
                        w.u.setup(move |env| {
                            let c = ProbeExecutableClient::new(env, &a);
                            c.set_fail(&true);
                            c.set_fail_kind(&fk);
                        });
                        full(payload.clone())
                    }
                    "deploy-taken-id" => {
                        if kind != "deploy" {
                            continue;
                        }
                        c2.token_id = *rng.pick(&[native_id, lock_id]);
                        full(c2.payload())
                    }
                    "deploy-empty-name" | "deploy-empty-symbol" => {
                        if kind != "deploy" {
                            continue;
                        }
                        if dev == "deploy-empty-name" {
                            c2.name = vec![];
                        } else {
                            c2.symbol = vec![];
                        }
                        w.prime_for(&c2.token_id);
                        full(c2.payload())
                    }
                    _ => continue,
                };
                let _ = expect_either;
                let r = attempt(&mut w, &att, true);
                if dev == "application-fails" {
                    let a = w.app.clone();
                    w.u.setup(move |env| ProbeExecutableClient::new(env, &a).set_fail(&false));
                }
                let o = match r {
                    Ok(o) => o,
                    Err(_) => {
                        rep.foreign("honest-approval-refused");
                        alive = false;
                        continue;
                    }
                };
                rep.step(format!("round {} {} deviation {} -> {:?}", round, kind, dev, o.res));
                rep.count(&format!("deviation:{}", dev));
                rep.eval(dev, &format!("{}|{}|{}", kind, dev, o.ok()), true);
                if rep.samples.len() < 5 && rng.chance(1, 60) {
                    rep.sample(json!({"conforming_kind": kind, "deviation": dev, "payload_len": att.deliver.3.len(), "accepted": o.ok()}));
                }
                if let Some(l) = &o.leak {
                    rep.violation(&format!("rejected-delivery-left-trace:{}", dev), l.clone());
                    alive = false;
                    continue;
                }
                if o.ok() {
                    rep.violation(
                        &format!("execute-accepts:{}", dev),
                        format!("the service executed a {} delivery that deviates from a conforming one in: {}", kind, dev),
                    );
                    // the attempt was rolled back; the universe can go on
                }
            }
            if !alive {
                break;
            }
            // ------------------------------------------------------------ the conforming delivery
            if kind == "deploy" {
                w.prime_for(&conf.token_id);
            }
            let rb = balance(&mut w.u, &if kind == "transfer-lock" { sac.addr.clone() } else { native_addr.clone() }, &conf.recipient);
            let log0 = app_log_len(&mut w);
            let att = Attempt { approve: Some((HUB_CHAIN.to_vec(), mid.clone(), hub.clone(), payload.clone(), true)), deliver: (HUB_CHAIN.to_vec(), mid.clone(), hub.clone(), payload.clone()) };
            let o = match attempt(&mut w, &att, false) {
                Ok(o) => o,
                Err(_) => {
                    rep.foreign("honest-approval-refused");
                    break;
                }
            };
            rep.step(format!("round {} conforming {} origin={:?} amount={} -> {:?}", round, kind, lossy(&conf.origin), conf.amount, o.res));
            rep.count(&format!("conforming:{}", kind));
            rep.eval("conforming", &format!("conforming|{}|{}", kind, o.ok()), true);
            if !o.ok() && window.is_some() {
                rep.count("note:valid-request-refused-while-migration-window-open");
                continue;
            }
            if !o.ok() {
                rep.violation(&format!("conforming-delivery-refused:{}", kind), format!("{:?}", o.res));
                break;
            }
            let delivered = MMessage { source_chain: HUB_CHAIN.to_vec(), message_id: mid.clone(), source_address: hub.clone(), contract: w.its_sc.clone(), payload_hash: keccak(&payload) };
            w.g.model.apply_consume(&delivered);
            if let Some(d) = w.g.check_status(&mut w.u, &delivered) {
                rep.violation("approval-not-consumed", d);
                break;
            }
            // effects
            if kind == "deploy" {
                match w.registry_entry(&conf.token_id) {
                    Some((_, 0)) => deployed_remote.push(conf.token_id),
                    _ => {
                        rep.violation("conforming-deploy-without-effect", "no registry entry after an executed deploy message".into());
                        break;
                    }
                }
                if !o.events.iter().any(|e| e.contract == w.its_sc && e.kind() == "interchain_token_deployed") {
                    rep.count("note:no-interchain_token_deployed-event");
                } else {
                    rep.event("interchain_token_deployed");
                }
            } else {
                let tok = if kind == "transfer-lock" { sac.addr.clone() } else { native_addr.clone() };
                let ra = balance(&mut w.u, &tok, &conf.recipient);
                if ra - rb != conf.amount as i128 {
                    rep.violation(&format!("conforming-transfer-effect:{}", kind), format!("recipient balance changed by {} for an announced amount of {}", ra - rb, conf.amount));
                    break;
                }
                if kind == "transfer-lock" {
                    custody -= conf.amount as i128;
                    let c = balance(&mut w.u, &tok, &w.its.clone());
                    if c != custody {
                        rep.violation("custody-mismatch", format!("service holds {}, model {}", c, custody));
                        break;
                    }
                }
                let want = Ev {
                    contract: w.its_sc.clone(),
                    topics: vec![
                        sv_sym("interchain_transfer_received"),
                        sv_str(&conf.origin),
                        sv_bytes(&conf.token_id),
                        sv_bytes(&conf.source),
                        sv_addr(&sc_addr(&conf.recipient)),
                        sv_i128(conf.amount as i128),
                    ],
                    data: sv_vec(vec![if conf.data.is_empty() { ScVal::Void } else { sv_bytes(&conf.data) }]),
                };
                let got: Vec<&Ev> = o.events.iter().filter(|e| e.contract == w.its_sc && e.kind() == "interchain_transfer_received").collect();
                if got.len() != 1 {
                    rep.count("note:interchain_transfer_received-count-differs");
                } else {
                    rep.event("interchain_transfer_received");
                }
                if got.len() == 1 && *got[0] != want && ctx.prop == "C04" {
                    rep.count("note:received-event-layout-differs");
                }
                if kind == "transfer-with-data" {
                    let log1 = app_log_len(&mut w);
                    if log1 != log0 + 1 {
                        rep.violation("application-call-count", format!("destination application called {} times", log1 as i64 - log0 as i64));
                        break;
                    }
                }
            }
            // ------------------------------------------------------------ the same delivery again
            let again = Attempt { approve: None, deliver: (HUB_CHAIN.to_vec(), mid.clone(), hub.clone(), payload.clone()) };
            let o2 = attempt(&mut w, &again, false).unwrap();
            rep.count("deviation:already-executed");
            rep.eval("already-executed", &format!("{}|again|{}", kind, o2.ok()), true);
            if let Some(l) = &o2.leak {
                rep.violation("rejected-delivery-left-trace:already-executed", l.clone());
                break;
            }
            if o2.ok() {
                rep.violation("execute-accepts:already-executed", format!("a {} message took effect twice", kind));
                break;
            }
            // re-approving the executed message must not revive it either, however much later
            if rng.chance(1, 3) {
                let d = rng.ledger_jump();
                if w.u.advance(d) {
                    rep.count("advance-ledger-before-reapproval");
                }
            }
            let reapp = Attempt { approve: Some((HUB_CHAIN.to_vec(), mid.clone(), hub.clone(), payload.clone(), true)), deliver: (HUB_CHAIN.to_vec(), mid.clone(), hub.clone(), payload.clone()) };
            if let Ok(o3) = attempt(&mut w, &reapp, false) {
                rep.eval("reapproved-after-execution", &format!("{}|reapproved|{}", kind, o3.ok()), true);
                if o3.ok() {
                    rep.violation("execute-accepts:reapproved-after-execution", format!("a {} message took effect again after re-approval", kind));
                    break;
                }
            }
            if let Some(d) = w.check_registry() {
                rep.violation("registry-or-trust-changed", d);
                break;
            }
        }
    }
    let mut req: Vec<String> = DEVIATIONS.iter().map(|d| format!("deviation:{}", d)).collect();
    req.push("deviation:already-executed".into());
    req.extend(KINDS.iter().map(|k| format!("conforming:{}", k)));
    rep.notes.insert("required".into(), json!(req));
    rep.notes.insert("token_mode".into(), json!("native"));
    rep.notes.insert("rule".into(), json!("one universe in eight first wires a service to a stand-in gateway whose validate_message answers true / false / void / u32 / i128 / string / symbol: it may act only on the boolean true. Per universe 5 rounds: a conforming delivery (transfer to a service-deployed token, release of a locked canonical asset, transfer with data to a destination application, remote deploy; origin chain drawn from the currently trusted chains while one chain's trust flips between rounds) and, before it, 13 of 31 single deviations, each delivered at a checkpoint together with the approval that matches it in every other respect: never approved, approved for other payload / id / source address / contract, approved for a (chain, id) pair that only coincides when joined with a delimiter, source chain or source address not the hub's, send-to-hub or out-of-range outer type, unsupported inner type, type words whose low byte is a supported tag but whose higher bytes are not zero, origin never trusted or no longer trusted, unknown token, undecodable recipient or minter (garbage, truncated, or well-formed XDR of a value that is not an address), amounts 2^127 / 2^128-1 / 2^128+1000 (bits 128..191 set) / 2^255, truncated / padded / non-canonical-offset payload, padded inner message, insufficient custody, failing application, deploy for a taken id or with empty name/symbol; then the conforming delivery (effects and consumption checked), the same delivery again, and again after re-approval (one time in three after ledger advancement up to the expiry of every temporary entry). distinct = (conforming kind, deviation, outcome)"));
}
