//! C06 — administrative operations need the current role holder's authorisation.
//! Recorded-authorisation replay with principal substitution: every administrative entry point
//! of every contract x every candidate principal x every role-transfer history, each call made
//! at a checkpoint in a state where authorisation is the only thing that can make it fail.

use crate::gw::*;
use crate::its::*;
use crate::oracle::*;
use crate::probes::vtarget::VersionedTarget;
use crate::report::Report;
use crate::rng::Rng;
use crate::tok::*;
use crate::univ::*;
use crate::Ctx;
use axelar_gas_service::{AxelarGasService, AxelarGasServiceClient};
use axelar_gateway::AxelarGatewayClient;
use axelar_operators::{AxelarOperators, AxelarOperatorsClient};
use axelar_soroban_std::interfaces::{OperatableClient, OwnableClient, UpgradableClient};
use axelar_soroban_std::types::Token;
use interchain_token::{InterchainToken, InterchainTokenClient};
use interchain_token_service::InterchainTokenServiceClient;
use serde_json::json;
use soroban_sdk::{Address, Bytes, BytesN, Env, IntoVal, String as SString, Symbol, Val, Vec as SVec};
use std::rc::Rc;
use upgrader::{Upgrader, UpgraderClient};

pub type Call = Rc<dyn Fn(&Env) -> Result<(), String>>;

pub fn one(c: Call) -> Vec<Call> {
    vec![c]
}

pub struct Ep {
    /// the statement leaves open whether the holder's own call succeeds in this state
    /// (e.g. owner minting while the owner is not a minter); everybody else must still fail
    pub holder_may_fail: bool,
    pub name: String,
    pub role: &'static str,
    pub call: Call,
    /// the same call with one argument changed each
    pub other_args: Vec<Call>,
    pub beneficiary: Option<Address>,
    /// state preparation inside the checkpoint (set-up traffic), e.g. open the migration window
    pub prep: Option<Rc<dyn Fn(&mut U)>>,
}

const CONTRACTS: [&str; 6] = ["gateway", "gas-service", "operators", "its", "interchain-token", "upgrader"];
const HISTORIES: [&str; 5] = ["fresh", "A->B", "A->B->A", "A->A", "A->B->C"];
const TRIVIAL_WASM: &[u8] = include_bytes!("/repo/packages/axelar-soroban-std/src/interfaces/testdata/contract_trivial_migration.wasm");

fn migrate_call(addr: &Address, arg_is_string: bool) -> Call {
    let a = addr.clone();
    Rc::new(move |env: &Env| {
        let mut v: SVec<Val> = SVec::new(env);
        if arg_is_string {
            v.push_back(SString::from_str(env, "2.0.0").to_val());
        } else {
            v.push_back(Val::VOID.to_val());
        }
        flat(env.try_invoke_contract::<Val, soroban_sdk::Error>(&a, &Symbol::new(env, "migrate"), v)).map(|_| ())
    })
}

fn open_window(addr: &Address) -> Rc<dyn Fn(&mut U)> {
    let a = addr.clone();
    Rc::new(move |u: &mut U| {
        let a = a.clone();
        u.setup(move |env| {
            UpgradableClient::new(env, &a).upgrade(&native_hash(env));
        });
    })
}

/// The migration after the ownership changed hands while the window was open: it belongs to the
/// new owner; the owner who upgraded is a former holder now.
fn migrate_after_handover(rep: &mut Report, u: &mut U, prefix: &str, addr: &Address, migrate_string: bool, owners: &[Address], newcomer: &Address, stranger: &Address, history: &str) {
    let (a, n) = (addr.clone(), newcomer.clone());
    let prep: Rc<dyn Fn(&mut U)> = Rc::new(move |u: &mut U| {
        let (a, n) = (a.clone(), n.clone());
        u.setup(move |env| {
            UpgradableClient::new(env, &a).upgrade(&native_hash(env));
            OwnableClient::new(env, &a).transfer_ownership(&n);
        });
    });
    let ep = Ep {
        holder_may_fail: false,
        name: format!("{}.migrate(ownership-moved-inside-window)", prefix),
        role: "owner",
        call: migrate_call(addr, migrate_string),
        other_args: vec![],
        beneficiary: None,
        prep: Some(prep),
    };
    matrix(rep, u, &ep, newcomer, owners, None, stranger, history);
}

/// `matrix` for the entry point as it is, and again with the contract's migration window open (the
/// owner has upgraded, the migration has not run yet): whatever a contract allows, skips or
/// defaults in that state, nobody but the role holder may get an administrative call through.
/// The holder's own call may be refused there (a contract may pause while it migrates).
fn matrix_also_in_window(rep: &mut Report, u: &mut U, ep: &Ep, addr: &Address, holder: &Address, formers: &[Address], other_role: Option<&Address>, stranger: &Address, history: &str) {
    matrix(rep, u, ep, holder, formers, other_role, stranger, history);
    if ep.name.contains(".migrate") || ep.name.contains(".upgrade") {
        return;
    }
    let open = open_window(addr);
    let inner = ep.prep.clone();
    let prep: Rc<dyn Fn(&mut U)> = Rc::new(move |u: &mut U| {
        open(u);
        if let Some(p) = &inner {
            p(u);
        }
    });
    let ep2 = Ep {
        holder_may_fail: true,
        name: format!("{}(migration-window-open)", ep.name),
        role: ep.role,
        call: ep.call.clone(),
        other_args: ep.other_args.clone(),
        beneficiary: ep.beneficiary.clone(),
        prep: Some(prep),
    };
    matrix(rep, u, &ep2, holder, formers, other_role, stranger, history);
}

/// The three entry points every upgradable + ownable contract has.
fn common_eps(prefix: &str, addr: &Address, newcomer: &Address, other: &Address, other_hash: &BytesN<32>, migrate_string: bool, current_owner: Option<&Address>) -> Vec<Ep> {
    let mut v = Vec::new();
    let (a, n, o) = (addr.clone(), newcomer.clone(), other.clone());
    let (a2, o2) = (addr.clone(), other.clone());
    v.push(Ep {
        holder_may_fail: false,
        name: format!("{}.transfer_ownership", prefix),
        role: "owner",
        call: Rc::new(move |env: &Env| flat(OwnableClient::new(env, &a).try_transfer_ownership(&n))),
        other_args: one(Rc::new(move |env: &Env| flat(OwnableClient::new(env, &a2).try_transfer_ownership(&o2)))),
        beneficiary: Some(newcomer.clone()),
        prep: None,
    });
    let _ = o;
    // naming the current holder as successor is still an administrative call
    if let Some(cur) = current_owner {
        let (a, c) = (addr.clone(), cur.clone());
        v.push(Ep {
            holder_may_fail: false,
            name: format!("{}.transfer_ownership(to-current-owner)", prefix),
            role: "owner",
            call: Rc::new(move |env: &Env| flat(OwnableClient::new(env, &a).try_transfer_ownership(&c))),
            other_args: vec![],
            beneficiary: None,
            prep: None,
        });
    }
    let (a, a2, oh) = (addr.clone(), addr.clone(), other_hash.clone());
    v.push(Ep {
        holder_may_fail: false,
        name: format!("{}.upgrade", prefix),
        role: "owner",
        call: Rc::new(move |env: &Env| flat(UpgradableClient::new(env, &a).try_upgrade(&native_hash(env)))),
        other_args: one(Rc::new(move |env: &Env| flat(UpgradableClient::new(env, &a2).try_upgrade(&oh)))),
        beneficiary: None,
        prep: None,
    });
    v.push(Ep {
        holder_may_fail: false,
        name: format!("{}.migrate", prefix),
        role: "owner",
        call: migrate_call(addr, migrate_string),
        other_args: vec![],
        beneficiary: None,
        prep: Some(open_window(addr)),
    });
    v
}

pub struct Roles {
    pub owner: Address,
    pub former_owners: Vec<Address>,
    pub second: Option<(&'static str, Address, Vec<Address>)>, // (role name, holder, formers)
    pub other_role_for_owner_eps: Option<Address>,
}

/// Perform a role-transfer history with the exact holder's authorisation; returns the
/// successive holders (last = current). None when a transfer was refused.
fn run_history(rep: &mut Report, u: &mut U, first: &Address, history: &str, transfer: &dyn Fn(&Address) -> Call, getter: &dyn Fn(&mut U) -> Address, what: &str) -> Option<Vec<Address>> {
    let mut holders = vec![first.clone()];
    let steps: Vec<usize> = match history {
        "fresh" => vec![],
        "A->B" => vec![1],
        "A->B->A" => vec![1, 0],
        "A->A" => vec![0],
        _ => vec![1, 2],
    };
    let mut people: Vec<Address> = vec![first.clone()];
    for s in steps {
        while people.len() <= s {
            people.push(u.principal());
        }
        let next = people[s].clone();
        let cur = holders.last().unwrap().clone();
        let call = transfer(&next);
        let o = u.call(Auth::Only(vec![cur.clone()]), &*call);
        rep.eval("role-transfer", &format!("{}|{}|{}", what, history, o.ok()), true);
        if !o.ok() {
            rep.violation(&format!("holder-refused:{}", what), format!("transfer by the current holder refused in history {}: {:?}", history, o.res));
            return None;
        }
        if getter(u) != next {
            rep.violation(&format!("role-not-with-successor:{}", what), format!("after a transfer in history {} the getter does not name the successor", history));
            return None;
        }
        holders.push(next);
    }
    // the role must still be with the same holder after a long time without any call
    // (1.3 M ledgers, then on to the end of the lifetime of every temporary entry there is)
    if u.advance(1_300_000) && u.advance(EON) && getter(u) != *holders.last().unwrap() {
        rep.violation(&format!("role-changed-by-passing-time:{}", what), format!("history {}", history));
        return None;
    }
    Some(holders)
}

/// Evaluate one entry point under every candidate principal, each at a checkpoint.
pub fn matrix(rep: &mut Report, u: &mut U, ep: &Ep, holder: &Address, formers: &[Address], other_role: Option<&Address>, stranger: &Address, history: &str) -> bool {
    let mut cands: Vec<(String, Auth, bool)> = vec![("holder".into(), Auth::Only(vec![holder.clone()]), true)];
    for (i, f) in formers.iter().enumerate() {
        if f != holder {
            cands.push((format!("former-holder-{}", i), Auth::AllBy(f.clone()), false));
        }
    }
    if let Some(o) = other_role {
        if o != holder {
            cands.push(("other-role-holder".into(), Auth::AllBy(o.clone()), false));
        }
    }
    if let Some(b) = &ep.beneficiary {
        if b != holder {
            cands.push(("beneficiary".into(), Auth::AllBy(b.clone()), false));
        }
    }
    cands.push(("stranger".into(), Auth::AllBy(stranger.clone()), false));
    cands.push(("nobody".into(), Auth::Nobody, false));
    for _ in &ep.other_args {
        cands.push(("holder-other-arguments".into(), Auth::Nobody, false)); // forest filled below
    }
    let mut variant = 0usize;
    let mut ok_all = true;
    for (class, auth, must_ok) in cands {
        let ck = u.checkpoint();
        if let Some(p) = &ep.prep {
            p(u);
        }
        let auth = if class == "holder-other-arguments" {
            let call = ep.other_args[variant].clone();
            variant += 1;
            let (_, forest) = u.record(&*call);
            // keep only the holder's trees: the right principal, but for other arguments
            let h = sc_addr(holder);
            Auth::Forest(forest.into_iter().filter(|(a, _)| *a == h).collect())
        } else {
            auth
        };
        let o = u.call(auth, &*ep.call);
        let class_short = if class.starts_with("former-holder") { "former-holder" } else { class.as_str() };
        rep.step(format!("{} history={} principal={} -> ok={}", ep.name, history, class, o.ok()));
        rep.count(&format!("principal:{}", class_short));
        rep.count(&format!("ep:{}", ep.name));
        rep.eval(&ep.name, &format!("{}|{}|{}|{}", ep.name, history, class_short, o.ok()), true);
        if rep.samples.len() < 6 && class_short == "former-holder" && rep.samples.len() < 3 {
            rep.sample(json!({"entry_point": ep.name, "history": history, "principal": class, "accepted": o.ok()}));
        }
        let leak = o.leak.clone();
        u.restore(&ck);
        if let Some(l) = leak {
            rep.violation(&format!("refused-admin-call-left-trace:{}", ep.name), l);
            ok_all = false;
            continue;
        }
        if class == "holder" && ep.holder_may_fail {
            continue;
        }
        if o.ok() != must_ok {
            if o.ok() {
                rep.violation(
                    &format!("admin-call-accepted-from:{}:{}", class_short, ep.name),
                    format!("{} succeeded when authorised only by {} (history {}); it needs the current {}", ep.name, class, history, ep.role),
                );
            } else {
                rep.violation(
                    &format!("holder-refused:{}", ep.name),
                    format!("{} failed with exactly the current {}'s authorisation (history {}): {:?}", ep.name, ep.role, history, o.res),
                );
            }
            ok_all = false;
        }
    }
    ok_all
}

/// Entry points outside the pinned interface, called by a stranger (with the stranger's authorisation
/// or none) with the addresses at hand: whatever else they do, who holds which role must read the same
/// afterwards.
fn unknown_admin_probe(rep: &mut Report, u: &mut U, label: &str, dir: &str, known: &[&str], addr: &Address, stranger: &Address, holders: &[Address], roles: &dyn Fn(&mut U) -> String) {
    let names = unknown_entry_points(dir, known);
    if names.is_empty() {
        return;
    }
    let ck = u.checkpoint();
    let before = roles(u);
    let mut tuples: Vec<SVec<Val>> = Vec::new();
    let mut shapes: Vec<Vec<Val>> = vec![vec![], vec![stranger.to_val()], vec![stranger.to_val(), true.into()]];
    for h in holders {
        shapes.push(vec![h.to_val(), stranger.to_val()]);
        shapes.push(vec![h.to_val()]);
    }
    for sh in shapes {
        let mut v: SVec<Val> = SVec::new(&u.env);
        for a in sh {
            v.push_back(a);
        }
        tuples.push(v);
    }
    let mut accepted = 0;
    let mut changed: Option<(String, String)> = None;
    'outer: for auth in [Auth::AllBy(stranger.clone()), Auth::Nobody] {
        for name in &names {
            for t in &tuples {
                // judged after every accepted call: a later call may put things back
                if u.try_unknown(addr, std::slice::from_ref(name), std::slice::from_ref(t), &auth) > 0 {
                    accepted += 1;
                    let after = roles(u);
                    if after != before {
                        changed = Some((name.clone(), after));
                        break 'outer;
                    }
                }
            }
        }
    }
    rep.count("unknown-entry-point-tried");
    if accepted > 0 {
        rep.count("note:unknown-entry-point-accepted-a-stranger's-call");
    }
    rep.eval(&format!("{}.unknown-entry-points", label), &format!("{}|unknown|{}", label, changed.is_none()), true);
    if let Some((name, after)) = changed {
        rep.step(format!("roles before: {} / after: {}", before, after));
        rep.violation(&format!("roles-changed-by-a-stranger-through-an-unknown-entry-point:{}", label), format!("after a stranger's call of {} the roles of {} read {} (were {})", name, label, after, before));
    }
    u.restore(&ck);
    // The same entry points used by the role holders themselves (everybody asked signs), followed by
    // an ordinary hand-over of every role to a newcomer: whatever the first call set in motion, the
    // newcomer never authorised anything, so no stranger's call may change who holds which role
    // afterwards. Judged per accepted first call, since later ones may overwrite its effect.
    let newcomer = u.principal();
    for name in &names {
        for t in &tuples {
            let ck1 = u.checkpoint();
            if u.try_unknown(addr, std::slice::from_ref(name), std::slice::from_ref(t), &Auth::AsRecorded) > 0 {
                rep.count("note:unknown-entry-point-accepted-a-role-holder's-call");
                let (a, n) = (addr.clone(), newcomer.clone());
                u.setup(move |env| {
                    let _ = OwnableClient::new(env, &a).try_transfer_ownership(&n);
                    let _ = OperatableClient::new(env, &a).try_transfer_operatorship(&n);
                });
                u.skip_events();
                // only the roles that the ordinary transfer moved are judged from here on: a role the
                // pinned interface cannot hand over (the gas collector, a minter, an operator's
                // membership) is still held by whoever made the first call, whose nomination stands
                let moved = |u: &mut U| -> String {
                    let a = addr.clone();
                    u.query(move |env| format!("owner={:?} operator={:?}", OwnableClient::new(env, &a).try_owner(), OperatableClient::new(env, &a).try_operator()))
                };
                let handed = moved(u);
                let mut changed: Option<(String, String)> = None;
                'later: for auth in [Auth::AllBy(stranger.clone()), Auth::Nobody] {
                    for name2 in &names {
                        for t2 in &tuples {
                            if u.try_unknown(addr, std::slice::from_ref(name2), std::slice::from_ref(t2), &auth) > 0 {
                                let after = moved(u);
                                if after != handed {
                                    changed = Some((format!("{} after the holder's {}", name2, name), after));
                                    break 'later;
                                }
                            }
                        }
                    }
                }
                rep.eval(&format!("{}.unknown-entry-points-after-hand-over", label), &format!("{}|unknown-after-hand-over|{}", label, changed.is_none()), true);
                if let Some((what, after)) = changed {
                    rep.step(format!("roles after the hand-over: {} / after the stranger's call: {}", handed, after));
                    rep.violation(&format!("roles-changed-by-a-stranger-after-a-hand-over-through-an-unknown-entry-point:{}", label), format!("a stranger's call of {} changed the roles of {} to {} (were {}); the holders after the hand-over authorised nothing", what, label, after, handed));
                    u.restore(&ck1);
                    u.restore(&ck);
                    return;
                }
            }
            u.restore(&ck1);
        }
    }
    u.restore(&ck);
}

pub fn run(ctx: &Ctx, rep: &mut Report) {
    // x2: roles held by different addresses / initially by one and the same address
    let total = (CONTRACTS.len() * HISTORIES.len()) as u64 * 2 * if ctx.thorough() { 3 } else { 1 };
    for uni in ctx.my_universes(total) {
        let mut rng = ctx.rng_for(uni);
        rep.begin_universe(uni);
        let contract = CONTRACTS[(uni as usize) % CONTRACTS.len()];
        let history = HISTORIES[(uni as usize / CONTRACTS.len()) % HISTORIES.len()];
        let aliased = (uni as usize / (CONTRACTS.len() * HISTORIES.len())) % 2 == 1;
        rep.count(if aliased { "roles:initially-one-address" } else { "roles:distinct-addresses" });
        rep.step(format!("contract={} history={}", contract, history));
        rep.count(&format!("history:{}", history));
        rep.count(&format!("contract:{}", contract));
        match contract {
            "gateway" => {
                let mut u = U::new();
                let mut ring = KeyRing::default();
                let owner0 = u.principal();
                let operator0 = if aliased { owner0.clone() } else { u.principal() };
                let stranger = u.principal();
                let newcomer = u.principal();
                let other = u.principal();
                let set = gen_wellformed_set(&mut rng, &mut ring, 3);
                let old_set = gen_wellformed_set(&mut rng, &mut ring, 3);
                let mut g = Gw::deploy(&mut u, &owner0, &operator0, rng.bytes32(), 0, 1, &[old_set.clone()]);
                // one honest rotation, so that an older but still retained set exists
                if !g.rotate_honest(&mut u, &ring, &set) {
                    rep.foreign("setup-rotation-refused");
                    continue;
                }
                let other_hash = u.env.deployer().upload_contract_wasm(Bytes::from_slice(&u.env, TRIVIAL_WASM));
                let ga = g.addr.clone();
                let owners = match run_history(rep, &mut u, &owner0, history, &|n| { let (a, n) = (ga.clone(), n.clone()); Rc::new(move |env: &Env| flat(OwnableClient::new(env, &a).try_transfer_ownership(&n))) }, &|u| { let a = ga.clone(); u.query(move |env| OwnableClient::new(env, &a).owner()) }, "gateway.owner") {
                    Some(h) => h,
                    None => continue,
                };
                let operators = match run_history(rep, &mut u, &operator0, history, &|n| { let (a, n) = (ga.clone(), n.clone()); Rc::new(move |env: &Env| flat(OperatableClient::new(env, &a).try_transfer_operatorship(&n))) }, &|u| { let a = ga.clone(); u.query(move |env| OperatableClient::new(env, &a).operator()) }, "gateway.operator") {
                    Some(h) => h,
                    None => continue,
                };
                let owner = owners.last().unwrap().clone();
                let operator = operators.last().unwrap().clone();
                let mut eps = common_eps("gateway", &g.addr, &newcomer, &other, &other_hash, false, Some(&owner));
                let (a, n) = (g.addr.clone(), newcomer.clone());
                let (a2, o2) = (g.addr.clone(), other.clone());
                let to_self_op = {
                    let (a, c) = (g.addr.clone(), operator.clone());
                    Ep { holder_may_fail: false, name: "gateway.transfer_operatorship(to-current-operator)".into(), role: "operator",
                         call: Rc::new(move |env: &Env| flat(OperatableClient::new(env, &a).try_transfer_operatorship(&c))), other_args: vec![], beneficiary: None, prep: None }
                };
                matrix(rep, &mut u, &to_self_op, &operator, &operators[..operators.len() - 1], Some(&owner), &stranger, history);
                let op_eps = vec![
                    Ep {
                        holder_may_fail: false,
                        name: "gateway.transfer_operatorship".into(),
                        role: "operator",
                        call: Rc::new(move |env: &Env| flat(OperatableClient::new(env, &a).try_transfer_operatorship(&n))),
                        other_args: one(Rc::new(move |env: &Env| flat(OperatableClient::new(env, &a2).try_transfer_operatorship(&o2)))),
                        beneficiary: Some(newcomer.clone()),
                        prep: None,
                    },
                    {
                        let cand = gen_wellformed_set(&mut rng, &mut ring, 2);
                        let cand2 = gen_wellformed_set(&mut rng, &mut ring, 2);
                        let plan = plan_honest(&ring, &g.model.domain, &set, &cand.rotation_data_hash(), &all_slots(&set));
                        let plan2 = plan_honest(&ring, &g.model.domain, &set, &cand2.rotation_data_hash(), &all_slots(&set));
                        let (a, a2) = (g.addr.clone(), g.addr.clone());
                        Ep {
                            holder_may_fail: false,
                            name: "gateway.rotate_signers(bypass)".into(),
                            role: "operator",
                            call: Rc::new(move |env: &Env| flat(AxelarGatewayClient::new(env, &a).try_rotate_signers(&sdk_signers(env, &cand), &sdk_proof(env, &plan), &true))),
                            other_args: one(Rc::new(move |env: &Env| flat(AxelarGatewayClient::new(env, &a2).try_rotate_signers(&sdk_signers(env, &cand2), &sdk_proof(env, &plan2), &true)))),
                            beneficiary: None,
                            prep: None,
                        }
                    },
                ];
                let older_ep = {
                    let cand = gen_wellformed_set(&mut rng, &mut ring, 2);
                    let cand2 = gen_wellformed_set(&mut rng, &mut ring, 2);
                    let plan = plan_honest(&ring, &g.model.domain, &old_set, &cand.rotation_data_hash(), &all_slots(&old_set));
                    let plan2 = plan_honest(&ring, &g.model.domain, &old_set, &cand2.rotation_data_hash(), &all_slots(&old_set));
                    let (a, a2) = (g.addr.clone(), g.addr.clone());
                    Ep {
                        holder_may_fail: false,
                        name: "gateway.rotate_signers(bypass,older-retained-set)".into(),
                        role: "operator",
                        call: Rc::new(move |env: &Env| flat(AxelarGatewayClient::new(env, &a).try_rotate_signers(&sdk_signers(env, &cand), &sdk_proof(env, &plan), &true))),
                        other_args: one(Rc::new(move |env: &Env| flat(AxelarGatewayClient::new(env, &a2).try_rotate_signers(&sdk_signers(env, &cand2), &sdk_proof(env, &plan2), &true)))),
                        beneficiary: None,
                        prep: None,
                    }
                };
                for ep in &eps {
                    matrix_also_in_window(rep, &mut u, ep, &g.addr, &owner, &owners[..owners.len() - 1], Some(&operator), &stranger, history);
                }
                migrate_after_handover(rep, &mut u, "gateway", &g.addr, false, &owners, &newcomer, &stranger, history);
                matrix(rep, &mut u, &older_ep, &operator, &operators[..operators.len() - 1], Some(&owner), &stranger, history);
                for ep in &op_eps {
                    matrix_also_in_window(rep, &mut u, ep, &g.addr, &operator, &operators[..operators.len() - 1], Some(&owner), &stranger, history);
                }
                eps.clear();
                {
                    let a = g.addr.clone();
                    unknown_admin_probe(rep, &mut u, "gateway", "axelar-gateway", &["owner", "transfer_ownership", "operator", "transfer_operatorship", "version", "upgrade", "migrate"], &g.addr, &stranger, &[owner.clone(), operator.clone()], &move |u: &mut U| {
                        let a = a.clone();
                        u.query(move |env| format!("owner={:?} operator={:?}", OwnableClient::new(env, &a).try_owner(), OperatableClient::new(env, &a).try_operator()))
                    });
                }
            }
            "gas-service" => {
                let mut u = U::new();
                let owner0 = u.principal();
                let collector = if aliased { owner0.clone() } else { u.principal() };
                let stranger = u.principal();
                let newcomer = u.principal();
                let other = u.principal();
                let receiver = u.principal();
                let gs = u.env.register(AxelarGasService, (&owner0, &collector));
                let admin = u.principal();
                let tok = make_token(&mut u, TokKind::Sac, &admin, &mut rng);
                mint(&mut u, &tok, &gs, 1000);
                let other_hash = u.env.deployer().upload_contract_wasm(Bytes::from_slice(&u.env, TRIVIAL_WASM));
                u.skip_events();
                let ga = gs.clone();
                let owners = match run_history(rep, &mut u, &owner0, history, &|n| { let (a, n) = (ga.clone(), n.clone()); Rc::new(move |env: &Env| flat(OwnableClient::new(env, &a).try_transfer_ownership(&n))) }, &|u| { let a = ga.clone(); u.query(move |env| OwnableClient::new(env, &a).owner()) }, "gas-service.owner") {
                    Some(h) => h,
                    None => continue,
                };
                let owner = owners.last().unwrap().clone();
                let eps = common_eps("gas-service", &gs, &newcomer, &other, &other_hash, false, Some(&owner));
                for ep in &eps {
                    matrix_also_in_window(rep, &mut u, ep, &gs, &owner, &owners[..owners.len() - 1], Some(&collector), &stranger, history);
                }
                migrate_after_handover(rep, &mut u, "gas-service", &gs, false, &owners, &newcomer, &stranger, history);
                // collector entry points (the collector is fixed at construction)
                let mk = |amount: i128, refund: bool| -> Call {
                    let (a, r, t) = (gs.clone(), receiver.clone(), tok.addr.clone());
                    Rc::new(move |env: &Env| {
                        let c = AxelarGasServiceClient::new(env, &a);
                        let tk = Token { address: t.clone(), amount };
                        if refund {
                            flat(c.try_refund(&sstr(env, b"msg-1"), &r, &tk))
                        } else {
                            flat(c.try_collect_fees(&r, &tk))
                        }
                    })
                };
                let mk_self = |amount: i128, refund: bool| -> Call {
                    let (a, r, t) = (gs.clone(), collector.clone(), tok.addr.clone());
                    Rc::new(move |env: &Env| {
                        let c = AxelarGasServiceClient::new(env, &a);
                        let tk = Token { address: t.clone(), amount };
                        if refund {
                            flat(c.try_refund(&sstr(env, b"msg-1"), &r, &tk))
                        } else {
                            flat(c.try_collect_fees(&r, &tk))
                        }
                    })
                };
                let c_eps = vec![
                    Ep { holder_may_fail: false, name: "gas-service.collect_fees(receiver=collector)".into(), role: "gas collector", call: mk_self(10, false), other_args: one(mk_self(11, false)), beneficiary: None, prep: None },
                    Ep { holder_may_fail: false, name: "gas-service.refund(receiver=collector)".into(), role: "gas collector", call: mk_self(10, true), other_args: one(mk_self(11, true)), beneficiary: None, prep: None },
                    Ep { holder_may_fail: false, name: "gas-service.collect_fees".into(), role: "gas collector", call: mk(10, false), other_args: one(mk(11, false)), beneficiary: Some(receiver.clone()), prep: None },
                    Ep { holder_may_fail: false, name: "gas-service.refund".into(), role: "gas collector", call: mk(10, true), other_args: one(mk(11, true)), beneficiary: Some(receiver.clone()), prep: None },
                ];
                let mut c_eps = c_eps;
                {
                    // one argument changed at a time: the receiver, the message id
                    let mk_to = |to: Address, refund: bool, msg: &'static [u8]| -> Call {
                        let (a, t) = (gs.clone(), tok.addr.clone());
                        Rc::new(move |env: &Env| {
                            let c = AxelarGasServiceClient::new(env, &a);
                            let tk = Token { address: t.clone(), amount: 10 };
                            if refund {
                                flat(c.try_refund(&sstr(env, msg), &to, &tk))
                            } else {
                                flat(c.try_collect_fees(&to, &tk))
                            }
                        })
                    };
                    let n = c_eps.len();
                    c_eps[n - 2].other_args.push(mk_to(other.clone(), false, b"msg-1"));
                    c_eps[n - 1].other_args.push(mk_to(other.clone(), true, b"msg-1"));
                    c_eps[n - 1].other_args.push(mk_to(receiver.clone(), true, b"msg-2"));
                }
                for ep in &c_eps {
                    matrix_also_in_window(rep, &mut u, ep, &gs, &collector, &[], Some(&owner), &stranger, history);
                }
                {
                    let a = gs.clone();
                    unknown_admin_probe(rep, &mut u, "gas-service", "axelar-gas-service", &["owner", "transfer_ownership", "version", "upgrade", "migrate"], &gs, &stranger, &[owner.clone(), collector.clone()], &move |u: &mut U| {
                        let a = a.clone();
                        u.query(move |env| format!("owner={:?} collector={:?}", OwnableClient::new(env, &a).try_owner(), AxelarGasServiceClient::new(env, &a).try_gas_collector()))
                    });
                }
            }
            "operators" => {
                let mut u = U::new();
                let owner0 = u.principal();
                let stranger = u.principal();
                let newcomer = u.principal();
                let other = u.principal();
                let member = u.principal();
                let cand = u.principal();
                let oc = u.env.register(AxelarOperators, (&owner0,));
                {
                    let (oc2, m) = (oc.clone(), member.clone());
                    u.setup(move |env| {
                        AxelarOperatorsClient::new(env, &oc2).add_operator(&m);
                    });
                }
                let other_hash = u.env.deployer().upload_contract_wasm(Bytes::from_slice(&u.env, TRIVIAL_WASM));
                u.skip_events();
                let ga = oc.clone();
                let owners = match run_history(rep, &mut u, &owner0, history, &|n| { let (a, n) = (ga.clone(), n.clone()); Rc::new(move |env: &Env| flat(OwnableClient::new(env, &a).try_transfer_ownership(&n))) }, &|u| { let a = ga.clone(); u.query(move |env| OwnableClient::new(env, &a).owner()) }, "operators.owner") {
                    Some(h) => h,
                    None => continue,
                };
                let owner = owners.last().unwrap().clone();
                let mut eps = common_eps("operators", &oc, &newcomer, &other, &other_hash, false, Some(&owner));
                let (a, c, a2, o2) = (oc.clone(), cand.clone(), oc.clone(), other.clone());
                eps.push(Ep {
                    holder_may_fail: false,
                    name: "operators.add_operator".into(),
                    role: "owner",
                    call: Rc::new(move |env: &Env| flat(AxelarOperatorsClient::new(env, &a).try_add_operator(&c))),
                    other_args: one(Rc::new(move |env: &Env| flat(AxelarOperatorsClient::new(env, &a2).try_add_operator(&o2)))),
                    beneficiary: Some(cand.clone()),
                    prep: None,
                });
                let (a, m) = (oc.clone(), member.clone());
                eps.push(Ep {
                    holder_may_fail: false,
                    name: "operators.remove_operator".into(),
                    role: "owner",
                    call: Rc::new(move |env: &Env| flat(AxelarOperatorsClient::new(env, &a).try_remove_operator(&m))),
                    other_args: vec![],
                    beneficiary: Some(member.clone()),
                    prep: None,
                });
                for ep in &eps {
                    matrix_also_in_window(rep, &mut u, ep, &oc, &owner, &owners[..owners.len() - 1], Some(&member), &stranger, history);
                }
                migrate_after_handover(rep, &mut u, "operators", &oc, false, &owners, &newcomer, &stranger, history);
                {
                    let (a, m, st) = (oc.clone(), member.clone(), stranger.clone());
                    unknown_admin_probe(rep, &mut u, "operators", "axelar-operators", &["owner", "transfer_ownership", "version", "upgrade", "migrate"], &oc, &stranger, &[owner.clone(), member.clone()], &move |u: &mut U| {
                        let (a, m, st) = (a.clone(), m.clone(), st.clone());
                        u.query(move |env| {
                            let c = AxelarOperatorsClient::new(env, &a);
                            format!("owner={:?} member={:?} stranger={:?}", OwnableClient::new(env, &a).try_owner(), c.try_is_operator(&m), c.try_is_operator(&st))
                        })
                    });
                }
            }
            "its" => {
                let mut w = ItsWorld::new(&mut rng, b"stellar", b"hub", 1);
                w.trust(b"ethereum");
                let newcomer = w.u.principal();
                let other = w.u.principal();
                let other_hash = w.u.env.deployer().upload_contract_wasm(Bytes::from_slice(&w.u.env, TRIVIAL_WASM));
                w.u.skip_events();
                let ga = w.its.clone();
                let owner0 = w.owner.clone();
                let owners = match run_history(rep, &mut w.u, &owner0, history, &|n| { let (a, n) = (ga.clone(), n.clone()); Rc::new(move |env: &Env| flat(OwnableClient::new(env, &a).try_transfer_ownership(&n))) }, &|u| { let a = ga.clone(); u.query(move |env| OwnableClient::new(env, &a).owner()) }, "its.owner") {
                    Some(h) => h,
                    None => continue,
                };
                let owner = owners.last().unwrap().clone();
                let mut eps = common_eps("its", &w.its, &newcomer, &other, &other_hash, false, Some(&owner));
                let mk = |chain: &'static [u8], add: bool| -> Call {
                    let a = w.its.clone();
                    Rc::new(move |env: &Env| {
                        let c = InterchainTokenServiceClient::new(env, &a);
                        if add {
                            flat(c.try_set_trusted_chain(&sstr(env, chain)))
                        } else {
                            flat(c.try_remove_trusted_chain(&sstr(env, chain)))
                        }
                    })
                };
                eps.push(Ep { holder_may_fail: false, name: "its.set_trusted_chain".into(), role: "owner", call: mk(b"avalanche", true), other_args: one(mk(b"polygon", true)), beneficiary: None, prep: None });
                eps.push(Ep { holder_may_fail: false, name: "its.remove_trusted_chain".into(), role: "owner", call: mk(b"ethereum", false), other_args: vec![], beneficiary: None, prep: None });
                let stranger = w.stranger.clone();
                let gw_owner = sc_addr(&w.gs_collector);
                let other_role = addr_of(&w.u.env, &gw_owner);
                for ep in &eps {
                    matrix_also_in_window(rep, &mut w.u, ep, &ga, &owner, &owners[..owners.len() - 1], Some(&other_role), &stranger, history);
                }
                let its_addr = w.its.clone();
                migrate_after_handover(rep, &mut w.u, "its", &its_addr, false, &owners, &newcomer, &stranger, history);
                {
                    let a = w.its.clone();
                    unknown_admin_probe(rep, &mut w.u, "its", "interchain-token-service", &["owner", "transfer_ownership", "version", "upgrade", "migrate"], &its_addr, &stranger, &[owner.clone()], &move |u: &mut U| {
                        let a = a.clone();
                        u.query(move |env| {
                            let c = InterchainTokenServiceClient::new(env, &a);
                            format!("owner={:?} ethereum={:?} avalanche={:?}", OwnableClient::new(env, &a).try_owner(), c.try_is_trusted_chain(&sstr(env, b"ethereum")), c.try_is_trusted_chain(&sstr(env, b"avalanche")))
                        })
                    });
                }
            }
            "interchain-token" => {
                let mut u = U::new();
                let owner0 = u.principal();
                let minter = if aliased { owner0.clone() } else { u.principal() };
                let stranger = u.principal();
                let newcomer = u.principal();
                let other = u.principal();
                let md = metadata(&u.env, b"T", b"T", 7);
                let tk = u.env.register(InterchainToken, (owner0.clone(), Some(minter.clone()), BytesN::from_array(&u.env, &rng.bytes32()), md));
                let other_hash = u.env.deployer().upload_contract_wasm(Bytes::from_slice(&u.env, TRIVIAL_WASM));
                u.skip_events();
                let ga = tk.clone();
                let owners = match run_history(rep, &mut u, &owner0, history, &|n| { let (a, n) = (ga.clone(), n.clone()); Rc::new(move |env: &Env| flat(OwnableClient::new(env, &a).try_transfer_ownership(&n))) }, &|u| { let a = ga.clone(); u.query(move |env| OwnableClient::new(env, &a).owner()) }, "interchain-token.owner") {
                    Some(h) => h,
                    None => continue,
                };
                let owner = owners.last().unwrap().clone();
                let mut eps = common_eps("interchain-token", &tk, &newcomer, &other, &other_hash, false, Some(&owner));
                let (a, n, a2, o2) = (tk.clone(), newcomer.clone(), tk.clone(), other.clone());
                eps.push(Ep {
                    holder_may_fail: false,
                    name: "interchain-token.set_admin".into(),
                    role: "owner",
                    call: Rc::new(move |env: &Env| flat(InterchainTokenClient::new(env, &a).try_set_admin(&n))),
                    other_args: one(Rc::new(move |env: &Env| flat(InterchainTokenClient::new(env, &a2).try_set_admin(&o2)))),
                    beneficiary: Some(newcomer.clone()),
                    prep: None,
                });
                let (a, n, a2, o2) = (tk.clone(), newcomer.clone(), tk.clone(), other.clone());
                eps.push(Ep {
                    holder_may_fail: false,
                    name: "interchain-token.add_minter".into(),
                    role: "owner",
                    call: Rc::new(move |env: &Env| flat(InterchainTokenClient::new(env, &a).try_add_minter(&n))),
                    other_args: one(Rc::new(move |env: &Env| flat(InterchainTokenClient::new(env, &a2).try_add_minter(&o2)))),
                    beneficiary: Some(newcomer.clone()),
                    prep: None,
                });
                let (a, m) = (tk.clone(), minter.clone());
                eps.push(Ep {
                    holder_may_fail: false,
                    name: "interchain-token.remove_minter".into(),
                    role: "owner",
                    call: Rc::new(move |env: &Env| flat(InterchainTokenClient::new(env, &a).try_remove_minter(&m))),
                    other_args: vec![],
                    beneficiary: Some(minter.clone()),
                    prep: None,
                });
                // owner minting: the owner must (still) be a minter for the call to be valid
                let (a, n, a2, n2) = (tk.clone(), newcomer.clone(), tk.clone(), newcomer.clone());
                let owner_c = owner.clone();
                let tk2 = tk.clone();
                eps.push(Ep {
                    holder_may_fail: false,
                    name: "interchain-token.mint".into(),
                    role: "owner",
                    call: Rc::new(move |env: &Env| flat(InterchainTokenClient::new(env, &a).try_mint(&n, &5))),
                    other_args: one(Rc::new(move |env: &Env| flat(InterchainTokenClient::new(env, &a2).try_mint(&n2, &6)))),
                    beneficiary: Some(newcomer.clone()),
                    prep: Some(Rc::new(move |u: &mut U| {
                        let (t, o) = (tk2.clone(), owner_c.clone());
                        u.setup(move |env| {
                            InterchainTokenClient::new(env, &t).add_minter(&o);
                        });
                    })),
                });
                {
                    let (a, n) = (tk.clone(), newcomer.clone());
                    let (tk3, owner3) = (tk.clone(), owner.clone());
                    eps.push(Ep {
                        holder_may_fail: true,
                        name: "interchain-token.mint(owner-not-a-minter)".into(),
                        role: "owner",
                        call: Rc::new(move |env: &Env| flat(InterchainTokenClient::new(env, &a).try_mint(&n, &5))),
                        other_args: vec![],
                        beneficiary: Some(newcomer.clone()),
                        prep: Some(Rc::new(move |u: &mut U| {
                            let (t, o) = (tk3.clone(), owner3.clone());
                            u.setup(move |env| {
                                InterchainTokenClient::new(env, &t).remove_minter(&o);
                            });
                        })),
                    });
                }
                for ep in &eps {
                    matrix_also_in_window(rep, &mut u, ep, &tk, &owner, &owners[..owners.len() - 1], Some(&minter), &stranger, history);
                }
                migrate_after_handover(rep, &mut u, "interchain-token", &tk, false, &owners, &newcomer, &stranger, history);
                {
                    let (a, m, st) = (tk.clone(), minter.clone(), stranger.clone());
                    unknown_admin_probe(rep, &mut u, "interchain-token", "interchain-token", &["owner", "transfer_ownership", "version", "upgrade", "migrate"], &tk, &stranger, &[owner.clone(), minter.clone()], &move |u: &mut U| {
                        let (a, m, st) = (a.clone(), m.clone(), st.clone());
                        u.query(move |env| {
                            let c = InterchainTokenClient::new(env, &a);
                            format!("owner={:?} minter={:?} stranger-minter={:?}", c.try_owner(), c.try_is_minter(&m), c.try_is_minter(&st))
                        })
                    });
                }
            }
            _ => {
                // Upgrader: the target's owner must authorise both steps
                let mut u = U::new();
                let owner0 = u.principal();
                let stranger = u.principal();
                let target = u.env.register(VersionedTarget, (&owner0,));
                let upg = u.env.register(Upgrader, ());
                u.skip_events();
                let ga = target.clone();
                let owners = match run_history(rep, &mut u, &owner0, history, &|n| { let (a, n) = (ga.clone(), n.clone()); Rc::new(move |env: &Env| flat(OwnableClient::new(env, &a).try_transfer_ownership(&n))) }, &|u| { let a = ga.clone(); u.query(move |env| OwnableClient::new(env, &a).owner()) }, "upgrader-target.owner") {
                    Some(h) => h,
                    None => continue,
                };
                let owner = owners.last().unwrap().clone();
                // the probe target reports "3.1.4" once its code has been replaced; the two requests
                // differ in their migration data
                let mk = |note: &'static [u8]| -> Call {
                    let (up, t) = (upg.clone(), target.clone());
                    Rc::new(move |env: &Env| {
                        let mut data: SVec<Val> = SVec::new(env);
                        data.push_back(sstr(env, note).to_val());
                        flat_any(UpgraderClient::new(env, &up).try_upgrade(&t, &sstr(env, b"3.1.4"), &native_hash(env), &data))
                    })
                };
                let ep = Ep { holder_may_fail: false, name: "upgrader.upgrade".into(), role: "target's owner", call: mk(b"5.0.0"), other_args: one(mk(b"6.0.0")), beneficiary: None, prep: None };
                matrix(rep, &mut u, &ep, &owner, &owners[..owners.len() - 1], None, &stranger, history);
            }
        }
    }
    rep.exhaustive = Some(true);
    let mut req: Vec<String> = HISTORIES.iter().map(|h| format!("history:{}", h)).collect();
    req.extend(CONTRACTS.iter().map(|h| format!("contract:{}", h)));
    for p in ["holder", "former-holder", "other-role-holder", "beneficiary", "stranger", "nobody", "holder-other-arguments"] {
        req.push(format!("principal:{}", p));
    }
    for e in [
        "gateway.transfer_ownership", "gateway.upgrade", "gateway.migrate", "gateway.transfer_operatorship", "gateway.rotate_signers(bypass)", "gateway.rotate_signers(bypass,older-retained-set)",
        "gas-service.transfer_ownership", "gas-service.upgrade", "gas-service.migrate", "gas-service.collect_fees", "gas-service.refund", "gas-service.collect_fees(receiver=collector)", "gas-service.refund(receiver=collector)",
        "operators.transfer_ownership", "operators.upgrade", "operators.migrate", "operators.add_operator", "operators.remove_operator",
        "its.transfer_ownership", "its.upgrade", "its.migrate", "its.set_trusted_chain", "its.remove_trusted_chain",
        "interchain-token.transfer_ownership", "interchain-token.set_admin", "interchain-token.upgrade", "interchain-token.migrate",
        "interchain-token.add_minter", "interchain-token.remove_minter", "interchain-token.mint", "interchain-token.mint(owner-not-a-minter)", "gateway.transfer_ownership(to-current-owner)", "interchain-token.transfer_ownership(to-current-owner)", "gateway.transfer_operatorship(to-current-operator)", "upgrader.upgrade",
    ] {
        req.push(format!("ep:{}", e));
    }
    rep.notes.insert("required".into(), json!(req));
    rep.notes.insert("bounds".into(), json!({"contracts": CONTRACTS, "role_histories": HISTORIES, "entry_points": 38, "principals": ["holder", "each former holder", "holder of another role", "beneficiary named in the arguments", "stranger", "nobody", "holder but authorising other arguments"]}));
    rep.notes.insert("rule".into(), json!("finite matrix enumerated completely: 38 administrative entry points (role transfers also with the current holder named as successor; owner minting also while the owner is not a minter; the delay bypass both with the newest and with an older retained signer set; fee collection and refunds both to a third party and to the collector itself) (6 contracts) x 5 role-transfer histories (fresh, A->B, A->B->A, A->A, A->B->C; performed with the exact current holder's authorisation and checked with the role getters) x up to 8 principals. For each cell the authorisation forest the code asks for is recorded, then the call is replayed at a checkpoint with the forest signed by the chosen principal (or withheld, or recorded for other arguments); only the current holder's exact authorisation may succeed, every refused call is diffed against the pre-state. distinct = (entry point, history, principal class, outcome)"));
}
