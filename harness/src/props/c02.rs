//! C02 — each message is approved once and executed once, only by its destination.
//! Per-key state machine NotApproved -> Approved(content) -> Executed stepped in lock-step with
//! the gateway; full status sweep after every operation; offline exactly-once check over the
//! recorded event log.

use crate::gw::*;
use crate::oracle::*;
use crate::report::Report;
use crate::rng::Rng;
use crate::univ::*;
use crate::Ctx;
use serde_json::json;
use soroban_sdk::Address;
use std::collections::BTreeMap;

const CHAINS: [&[u8]; 4] = [b"", b"e", b"et", b"eth"];
const IDS: [&[u8]; 8] = [b"", b"h", b"th", b"eth", b"-1", b"h-1", b"th-1", b"eth-1"];

const REQUIRED: &[&str] = &[
    "approve-single",
    "approve-batch",
    "reapprove-approved-same",
    "reapprove-approved-different",
    "reapprove-executed-same",
    "reapprove-executed-different",
    "consume-conforming",
    "consume-again",
    "consume-wrong-caller",
    "consume-no-auth",
    "consume-stranger-auth",
    "consume-wrong-source-address",
    "consume-wrong-payload-hash",
    "consume-split-variant",
    "consume-never-approved",
    "advance-ledger",
];

struct World {
    u: U,
    ring: KeyRing,
    g: Gw,
    apps: Vec<Address>,
    stranger: Address,
    keys: Vec<(Vec<u8>, Vec<u8>)>,
    contents: Vec<MMessage>, // every content ever generated (for sweeps)
    log: Vec<Ev>,
}

fn status_name(g: &GwModel, k: &(Vec<u8>, Vec<u8>)) -> &'static str {
    match g.msgs.get(k) {
        None => "not-approved",
        Some(MsgStatus::Approved(_)) => "approved",
        Some(MsgStatus::Executed) => "executed",
    }
}

fn gen_content(w: &mut World, rng: &mut Rng, k: &(Vec<u8>, Vec<u8>)) -> MMessage {
    // few variants per key so that equal and different contents both occur
    let existing: Vec<MMessage> = w
        .contents
        .iter()
        .filter(|m| m.source_chain == k.0 && m.message_id == k.1)
        .cloned()
        .collect();
    if existing.len() >= 3 || (!existing.is_empty() && rng.chance(1, 2)) {
        return rng.pick(&existing).clone();
    }
    let srcs: [&[u8]; 3] = [b"0xaa", b"0xab", b""];
    let mut ph = [0u8; 32];
    ph[0] = rng.below(2) as u8;
    let m = MMessage {
        source_chain: k.0.clone(),
        message_id: k.1.clone(),
        source_address: rng.pick(&srcs).to_vec(),
        contract: sc_addr(&w.apps[rng.usize(w.apps.len())]),
        payload_hash: ph,
    };
    if !w.contents.contains(&m) {
        w.contents.push(m.clone());
    }
    m
}

/// The same bytes with the case of every ASCII letter flipped (None when there is no letter).
fn flip_case(b: &[u8]) -> Option<Vec<u8>> {
    let f: Vec<u8> = b.iter().map(|c| if c.is_ascii_lowercase() { c.to_ascii_uppercase() } else { c.to_ascii_lowercase() }).collect();
    if f == b {
        None
    } else {
        Some(f)
    }
}

fn sweep(w: &mut World) -> Option<String> {
    let contents = w.contents.clone();
    for m in &contents {
        if let Some(d) = w.g.check_status(&mut w.u, m) {
            return Some(d);
        }
        // the same content in another letter case is other content (and another key)
        for field in 0..3 {
            let mut v = m.clone();
            let flipped = match field {
                0 => flip_case(&m.source_address).map(|f| v.source_address = f),
                1 => flip_case(&m.source_chain).map(|f| v.source_chain = f),
                _ => flip_case(&m.message_id).map(|f| v.message_id = f),
            };
            if flipped.is_some() && !contents.contains(&v) {
                if let Some(d) = w.g.check_status(&mut w.u, &v) {
                    return Some(format!("variant(letter case of field {}): {}", field, d));
                }
            }
        }
        // single-field variations of the true content must never read as approved
        let mut v = m.clone();
        v.source_address.push(b'x');
        if !contents.contains(&v) {
            if let Some(d) = w.g.check_status(&mut w.u, &v) {
                return Some(format!("variant(source_address): {}", d));
            }
        }
        let mut v = m.clone();
        v.payload_hash[31] ^= 1;
        if let Some(d) = w.g.check_status(&mut w.u, &v) {
            return Some(format!("variant(payload_hash): {}", d));
        }
        let mut v = m.clone();
        v.contract = sc_addr(&w.stranger);
        if let Some(d) = w.g.check_status(&mut w.u, &v) {
            return Some(format!("variant(contract): {}", d));
        }
    }
    // keys never used yet must read as not approved / not executed
    let keys = w.keys.clone();
    for k in &keys {
        let probe = MMessage {
            source_chain: k.0.clone(),
            message_id: k.1.clone(),
            source_address: b"0xaa".to_vec(),
            contract: sc_addr(&w.apps[0]),
            payload_hash: [0u8; 32],
        };
        if let Some(d) = w.g.check_status(&mut w.u, &probe) {
            return Some(d);
        }
    }
    None
}

fn offline_check(w: &World) -> Option<String> {
    // per key: at most one approval and one execution event, execution after approval,
    // and the executed content equals the approved content
    let mut seen: BTreeMap<(Vec<u8>, Vec<u8>), (Option<(usize, soroban_sdk::xdr::ScVal)>, Option<usize>)> =
        BTreeMap::new();
    for (i, e) in w.log.iter().enumerate() {
        if e.contract != w.g.sc || e.topics.len() != 2 {
            continue;
        }
        let kind = e.kind();
        if kind != "message_approved" && kind != "message_executed" {
            continue;
        }
        // find the model content whose ScVal equals the topic
        let m = w.contents.iter().find(|m| m.to_scval() == e.topics[1]);
        let m = match m {
            Some(m) => m,
            None => return Some(format!("event #{} {} carries a message never submitted", i, kind)),
        };
        let ent = seen
            .entry((m.source_chain.clone(), m.message_id.clone()))
            .or_insert((None, None));
        if kind == "message_approved" {
            if ent.0.is_some() {
                return Some(format!(
                    "second message_approved for key ({:?},{:?})",
                    lossy(&m.source_chain),
                    lossy(&m.message_id)
                ));
            }
            ent.0 = Some((i, e.topics[1].clone()));
        } else {
            if ent.1.is_some() {
                return Some(format!(
                    "second message_executed for key ({:?},{:?})",
                    lossy(&m.source_chain),
                    lossy(&m.message_id)
                ));
            }
            match &ent.0 {
                None => return Some("message_executed without earlier message_approved".into()),
                Some((_, content)) => {
                    if *content != e.topics[1] {
                        return Some("message_executed content differs from approved content".into());
                    }
                }
            }
            ent.1 = Some(i);
        }
    }
    None
}

pub fn run(ctx: &Ctx, rep: &mut Report) {
    let total = ctx.universes(480, 30000);
    let ops_per_universe = 50;
    for uni in ctx.my_universes(total) {
        let mut rng = ctx.rng_for(uni);
        rep.begin_universe(uni);
        if uni == 0 {
            // once per run: the history recorded under the pinned version, continued by the current code
            crate::legacy::run(rep, "C02");
        }
        let mut u = U::new();
        let mut ring = KeyRing::default();
        let owner = u.principal();
        let operator = u.principal();
        let set = gen_wellformed_set(&mut rng, &mut ring, 3);
        let g = Gw::deploy(&mut u, &owner, &operator, rng.bytes32(), 0, 1, &[set]);
        let mut apps: Vec<Address> = (0..3).map(|_| u.principal()).collect();
        // two destinations nobody can sign for: the all-zero account and the gateway itself.
        // Messages approved for them can never be consumed, whoever else authorises the call.
        let unsignable: Vec<soroban_sdk::xdr::ScAddress> = vec![ZERO_ACCOUNT.clone(), g.sc.clone()];
        apps.push(addr_of(&u.env, &ZERO_ACCOUNT));
        apps.push(g.addr.clone());
        let role_holders = vec![owner.clone(), operator.clone()];
        let stranger = u.principal();
        // a colliding family of keys plus a few random ones
        let mut keys: Vec<(Vec<u8>, Vec<u8>)> = vec![
            (b"e".to_vec(), b"th-1".to_vec()),
            (b"et".to_vec(), b"h-1".to_vec()),
            (b"eth".to_vec(), b"-1".to_vec()),
            (b"".to_vec(), b"eth-1".to_vec()),
        ];
        // and a pair that collides when chain and id are joined with a delimiter
        {
            let d = *rng.pick(&[&b"_"[..], b"-", b":", b"/", b"\0", b"|"]);
            keys.push(([b"net".to_vec(), d.to_vec(), b"2024".to_vec()].concat(), b"0xfeed-0".to_vec()));
            keys.push((b"net".to_vec(), [b"2024".to_vec(), d.to_vec(), b"0xfeed-0".to_vec()].concat()));
        }
        // long names whose plain concatenations coincide (beyond any size threshold an implementation
        // may switch representation at), with upper-case letters
        {
            let len = *rng.pick(&[130usize, 200, 300, 1100]);
            let mut long: Vec<u8> = b"Avalanche-Fuji-0x".to_vec();
            while long.len() < len {
                long.push(b"0123456789abcdefXYZ"[long.len() % 19]);
            }
            let (k1, k2) = (9, 14);
            keys.push((long[..k1].to_vec(), long[k1..].to_vec()));
            keys.push((long[..k2].to_vec(), long[k2..].to_vec()));
        }
        while keys.len() < 10 {
            let k = (rng.pick(&CHAINS).to_vec(), rng.pick(&IDS).to_vec());
            if !keys.contains(&k) {
                keys.push(k);
            }
        }
        let mut w = World {
            u,
            ring,
            g,
            apps,
            stranger,
            keys,
            contents: Vec::new(),
            log: Vec::new(),
        };
        let mut dead = false;
        let mut window = false;
        let mut crowded = !rng.chance(1, 3);
        let unknown_fns = unknown_entry_points("axelar-gateway", &["__constructor", "approve_messages", "call_contract", "epoch", "epoch_by_signers_hash", "is_message_approved", "is_message_executed", "message_approval", "message_approval_by_key", "message_approval_hash", "rotate_signers", "run_migration", "signers_hash_by_epoch", "validate_message", "validate_proof", "domain_separator", "minimum_rotation_delay", "previous_signers_retention", "gateway", "owner", "operator", "upgrade", "migrate", "version", "transfer_ownership", "transfer_operatorship"]);
        for _ in 0..ops_per_universe {
            if dead {
                break;
            }
            // in one universe in three, somewhere in the middle of the history, the gateway approves 48
            // other messages (in batches of four): what it remembers about a message must not depend
            // on how many it has seen since
            if !crowded && !window && rng.chance(1, 12) {
                crowded = true;
                let dest = w.apps[0].clone();
                for b in 0..12u32 {
                    let batch: Vec<MMessage> = (0..4u32)
                        .map(|i| MMessage { source_chain: b"filler".to_vec(), message_id: format!("f-{}-{}", b, i).into_bytes(), source_address: b"0xfiller".to_vec(), contract: sc_addr(&dest), payload_hash: rng.bytes32() })
                        .collect();
                    let ring = w.ring.clone();
                    if !w.g.approve_honest(&mut w.u, &ring, &batch) {
                        break;
                    }
                }
                rep.count("many-other-approvals-in-between");
                rep.step("the gateway approves 48 other messages".into());
            }
            // the gateway is upgraded to the same code; the migration follows a few operations later,
            // with unit data or - if the migration wants data - with a list of every message the
            // history knows (as an owner listing the messages in flight might do)
            if !window && rng.chance(1, 25) {
                let ga = w.g.addr.clone();
                if w.u.upgrade_only(&ga).is_ok() {
                    rep.count("migration-window-opened");
                    rep.step("the gateway is upgraded to the same code: the migration window opens".into());
                    window = true;
                }
            } else if window && rng.chance(1, 3) {
                let ga = w.g.addr.clone();
                let env = w.u.env.clone();
                let known: Vec<MMessage> = w.contents.clone();
                let mut list: soroban_sdk::Vec<axelar_gateway::types::Message> = soroban_sdk::Vec::new(&env);
                for m in &known {
                    list.push_back(axelar_gateway::types::Message {
                        source_chain: sstr(&env, &m.source_chain),
                        message_id: sstr(&env, &m.message_id),
                        source_address: sstr(&env, &m.source_address),
                        contract_address: addr_of(&env, &m.contract),
                        payload_hash: soroban_sdk::BytesN::from_array(&env, &m.payload_hash),
                    });
                }
                let empty: soroban_sdk::Vec<axelar_gateway::types::Message> = soroban_sdk::Vec::new(&env);
                let cands: Vec<soroban_sdk::Val> = vec![soroban_sdk::IntoVal::into_val(&list, &env), soroban_sdk::IntoVal::into_val(&empty, &env)];
                match w.u.migrate_only(&ga, &cands) {
                    Ok(i) => {
                        rep.count("upgrade-and-migrate");
                        rep.step(format!("migration (data candidate {}): the window closes", i));
                    }
                    Err(e) => rep.step(format!("migrate -> {}", e)),
                }
                window = false;
                if let Some(d) = sweep(&mut w) {
                    rep.violation("status-changed-by-upgrade-and-migrate", d);
                    break;
                }
            }
            let k = rng.pick(&w.keys.clone()).clone();
            let st_before = status_name(&w.g.model, &k);
            let op = rng.weighted(&[3, 3, 6, 1]);
            if op == 3 {
                // time passes: the recorded history must not change (the sweep below re-reads everything)
                let d = rng.ledger_jump();
                if !w.u.advance(d) {
                    continue;
                }
                rep.step(format!("ledger advances by {} to {}", d, w.u.seq()));
                rep.count("advance-ledger");
                if let Some(d) = sweep(&mut w) {
                    rep.violation("status-changed-by-passing-time", d);
                    dead = true;
                }
                continue;
            }
            match op {
                0 | 1 => {
                    // approval, single or batch (with in-batch duplicates)
                    let n = if op == 0 { 1 } else { 2 + rng.usize(4) };
                    let mut batch = Vec::new();
                    for i in 0..n {
                        let kk = if i == 0 || rng.chance(1, 2) { k.clone() } else { rng.pick(&w.keys.clone()).clone() };
                        batch.push(gen_content(&mut w, &mut rng, &kk));
                    }
                    // classify the first message for coverage accounting
                    let first = &batch[0];
                    let class = match w.g.model.msgs.get(&k) {
                        None => {
                            if n == 1 {
                                "approve-single".to_string()
                            } else {
                                "approve-batch".to_string()
                            }
                        }
                        Some(MsgStatus::Approved(a)) => {
                            if a == first {
                                "reapprove-approved-same".into()
                            } else {
                                "reapprove-approved-different".into()
                            }
                        }
                        Some(MsgStatus::Executed) => {
                            // was the executed content the same? (the model no longer stores it;
                            // look it up in the event log)
                            let same = w.log.iter().any(|e| e.kind() == "message_executed" && e.topics.get(1) == Some(&first.to_scval()));
                            if same {
                                "reapprove-executed-same".into()
                            } else {
                                "reapprove-executed-different".into()
                            }
                        }
                    };
                    if n > 1 {
                        rep.count("approve-batch");
                    }
                    let set = w.g.model.sets.last().unwrap().clone();
                    let plan = plan_honest(&w.ring, &w.g.model.domain, &set, &approve_data_hash(&batch), &all_slots(&set));
                    rep.step(format!(
                        "approve n={} first=({:?},{:?}) status={} class={}",
                        n,
                        lossy(&first.source_chain),
                        lossy(&first.message_id),
                        st_before,
                        class
                    ));
                    let o = w.g.do_approve(&mut w.u, &batch, &plan);
                    rep.eval(&class, &format!("{}|n={}|dups={}|{}", class, n, batch.len() - dedup_keys(&batch), o.ok()), true);
                    if !o.ok() && window {
                        rep.count("note:valid-request-refused-while-migration-window-open");
                        continue;
                    }
                    if !o.ok() {
                        rep.foreign("honest-approval-refused");
                        dead = true;
                        continue;
                    }
                    // entry points of the gateway this workload does not know: each is tried with the
                    // arguments at hand (the batch and its proof; its first message and the proof; the
                    // first message alone). Whatever they do, the sweep below judges the result.
                    for name in &unknown_fns {
                        let env = w.u.env.clone();
                        let tuples: Vec<soroban_sdk::Vec<soroban_sdk::Val>> = {
                            use soroban_sdk::IntoVal;
                            let msgs = sdk_messages(&env, &batch);
                            let proof = sdk_proof(&env, &plan);
                            let first = sdk_message(&env, &batch[0]);
                            vec![(msgs.clone(), proof.clone()).into_val(&env), (first.clone(), proof.clone()).into_val(&env), (first,).into_val(&env), (msgs,).into_val(&env)]
                        };
                        for args in tuples {
                            let (ga, n2) = (w.g.addr.clone(), name.clone());
                            let o = w.u.call(Auth::Nobody, &move |env: &soroban_sdk::Env| {
                                flat(env.try_invoke_contract::<soroban_sdk::Val, soroban_sdk::Error>(&ga, &soroban_sdk::Symbol::new(env, &n2), args.clone())).map(|_| ())
                            });
                            rep.count("unknown-entry-point-tried");
                            if o.ok() {
                                rep.count("note:unknown-entry-point-accepted-a-call");
                                rep.step(format!("unknown entry point {} accepted a call", name));
                                for e in &o.events {
                                    if e.contract == w.g.sc {
                                        w.log.push(e.clone());
                                    }
                                }
                            }
                        }
                    }
                    let newly = w.g.model.apply_approve(&batch);
                    let want: Vec<Ev> = newly.iter().map(|m| w.g.ev_approved(m)).collect();
                    let got: Vec<Ev> = o.events.iter().filter(|e| e.contract == w.g.sc && e.kind() == "message_approved").cloned().collect();
                    for e in &o.events {
                        if e.contract == w.g.sc {
                            rep.event(&e.kind());
                            w.log.push(e.clone());
                        }
                    }
                    if got != want {
                        rep.violation(
                            &format!("approval-events:{}", class),
                            format!("{}: got {} message_approved events, model expects {} (newly approved only, in order)", class, got.len(), want.len()),
                        );
                        dead = true;
                        continue;
                    }
                    if o.events.iter().any(|e| e.contract == w.g.sc && e.kind() == "message_executed") {
                        rep.violation("approval-emitted-executed", "approve_messages emitted message_executed".into());
                        dead = true;
                        continue;
                    }
                }
                _ => {
                    // consumption attempt
                    let variant = rng.weighted(&[6, 2, 2, 2, 2, 2, 2, 2]);
                    // base: the approved content if any, else some content for this key
                    let base = match w.g.model.msgs.get(&k) {
                        Some(MsgStatus::Approved(a)) => a.clone(),
                        _ => gen_content(&mut w, &mut rng, &k),
                    };
                    let mut m = base.clone();
                    let mut auth = Auth::AsRecorded;
                    let mut class = match st_before {
                        "approved" => "consume-conforming",
                        "executed" => "consume-again",
                        _ => "consume-never-approved",
                    }
                    .to_string();
                    let mut needs_fail_for_auth = false;
                    match variant {
                        1 => {
                            // another app consumes with its own authorisation
                            let other = w.apps.iter().map(sc_addr).find(|a| *a != base.contract && !unsignable.contains(a)).unwrap();
                            m.contract = other;
                            class = "consume-wrong-caller".into();
                        }
                        2 => {
                            auth = Auth::Nobody;
                            needs_fail_for_auth = true;
                            class = "consume-no-auth".into();
                        }
                        3 => {
                            auth = Auth::AllBy(w.stranger.clone());
                            needs_fail_for_auth = true;
                            class = "consume-stranger-auth".into();
                        }
                        4 => {
                            // another source address: longer, or the same in another letter case
                            match flip_case(&m.source_address) {
                                Some(f) if rng.chance(1, 2) => m.source_address = f,
                                _ => m.source_address.push(b'0'),
                            }
                            class = "consume-wrong-source-address".into();
                        }
                        5 => {
                            m.payload_hash[rng.usize(32)] ^= 1 << rng.usize(8);
                            class = "consume-wrong-payload-hash".into();
                        }
                        6 => {
                            // same concatenation, different split
                            let mut cat = m.source_chain.clone();
                            cat.extend_from_slice(&m.message_id);
                            let cut = if cat.is_empty() { 0 } else { rng.usize(cat.len() + 1) };
                            let (a, b) = cat.split_at(cut);
                            if a == m.source_chain.as_slice() {
                                // identical split: fall back to appending to the id
                                m.message_id.push(b'~');
                            } else {
                                m.source_chain = a.to_vec();
                                m.message_id = b.to_vec();
                            }
                            class = "consume-split-variant".into();
                        }
                        7 => {
                            // the destination's authorisation, but recorded for other arguments
                            let mut other = m.clone();
                            other.payload_hash[0] ^= 0x80;
                            let addr = w.g.addr.clone();
                            let o2 = other.clone();
                            let (_, forest) = w.u.record(&move |env: &soroban_sdk::Env| {
                                let c = axelar_gateway::AxelarGatewayClient::new(env, &addr);
                                flat(c.try_validate_message(
                                    &addr_of(env, &o2.contract),
                                    &sstr(env, &o2.source_chain),
                                    &sstr(env, &o2.message_id),
                                    &sstr(env, &o2.source_address),
                                    &soroban_sdk::BytesN::from_array(env, &o2.payload_hash),
                                ))
                            });
                            auth = Auth::Forest(forest);
                            needs_fail_for_auth = true;
                            class = "consume-auth-for-other-args".into();
                        }
                        _ => {}
                    }
                    if !w.contents.contains(&m) {
                        w.contents.push(m.clone());
                    }
                    // a destination nobody can sign for: try the recorded forest as asked, or signed by
                    // the operator, the owner or a stranger; nothing may be consumed
                    let dest_unsignable = unsignable.contains(&m.contract);
                    if dest_unsignable {
                        auth = match rng.below(4) {
                            0 => Auth::AsRecorded,
                            1 => Auth::AllBy(role_holders[0].clone()),
                            2 => Auth::AllBy(role_holders[1].clone()),
                            _ => Auth::AllBy(w.stranger.clone()),
                        };
                        needs_fail_for_auth = true;
                        class = format!("{}+unsignable-destination", class);
                    }
                    // entry points the workload does not know, tried by the destination itself with a list
                    // naming its message twice / once: one approval is at most one consumption, however
                    // it is asked for
                    if !unknown_fns.is_empty() && !dest_unsignable && matches!(auth, Auth::AsRecorded) && w.g.model.consumable(&m) {
                        for twice in [true, false] {
                            if !w.g.model.consumable(&m) {
                                break;
                            }
                            let env = w.u.env.clone();
                            let args: soroban_sdk::Vec<soroban_sdk::Val> = {
                                use soroban_sdk::IntoVal;
                                let one = sdk_message(&env, &m);
                                let mut list: soroban_sdk::Vec<axelar_gateway::types::Message> = soroban_sdk::Vec::new(&env);
                                list.push_back(one.clone());
                                if twice {
                                    list.push_back(one);
                                }
                                (addr_of(&env, &m.contract), list).into_val(&env)
                            };
                            for name in &unknown_fns {
                                let (ga, n2, a2) = (w.g.addr.clone(), name.clone(), args.clone());
                                let o = w.u.call(Auth::AsRecorded, &move |env: &soroban_sdk::Env| {
                                    flat(env.try_invoke_contract::<soroban_sdk::Val, soroban_sdk::Error>(&ga, &soroban_sdk::Symbol::new(env, &n2), a2.clone())).map(|_| ())
                                });
                                rep.count("unknown-entry-point-tried");
                                if o.ok() {
                                    rep.count("note:unknown-entry-point-accepted-a-call");
                                    let executed: Vec<Ev> = o.events.iter().filter(|e| e.contract == w.g.sc && e.kind() == "message_executed").cloned().collect();
                                    rep.step(format!("unknown entry point {} accepted the destination's list (message named {}): {} message_executed", name, if twice { "twice" } else { "once" }, executed.len()));
                                    for e in &o.events {
                                        if e.contract == w.g.sc {
                                            w.log.push(e.clone());
                                        }
                                    }
                                    if executed.len() > 1 {
                                        rep.violation("consumed-more-than-once-through-an-unknown-entry-point", format!("{} announced {} consumptions of one approved message", name, executed.len()));
                                        dead = true;
                                    } else if executed.len() == 1 {
                                        w.g.model.apply_consume(&m);
                                    }
                                }
                            }
                        }
                        if dead {
                            continue;
                        }
                    }
                    let consumable = w.g.model.consumable(&m);
                    rep.step(format!(
                        "consume {} key=({:?},{:?}) status={} consumable={}",
                        class,
                        lossy(&m.source_chain),
                        lossy(&m.message_id),
                        st_before,
                        consumable
                    ));
                    let o = w.g.do_validate_message(&mut w.u, &m, auth);
                    rep.eval(&class, &format!("{}|{}|{}|{:?}", class, st_before, consumable, o.res), true);
                    if rep.samples.len() < 4 && rng.chance(1, 30) {
                        rep.sample(json!({"op": class, "key": [lossy(&m.source_chain), lossy(&m.message_id)],
                            "status_before": st_before, "result": format!("{:?}", o.res)}));
                    }
                    if let Some(l) = &o.leak {
                        rep.violation(&format!("refused-consume-left-trace:{}", class), l.clone());
                        dead = true;
                        continue;
                    }
                    if needs_fail_for_auth {
                        if o.ok() {
                            rep.violation(
                                &format!("consume-without-destination-auth:{}", class),
                                format!("validate_message succeeded ({:?}) without the destination's authorisation", o.res),
                            );
                            dead = true;
                        }
                        continue;
                    }
                    match &o.res {
                        Err(_) if window => {
                            rep.count("note:valid-request-refused-while-migration-window-open");
                            continue;
                        }
                        Err(e) => {
                            rep.violation(
                                &format!("consume-call-failed:{}", class),
                                format!("validate_message with the caller's own authorisation failed: {}", e),
                            );
                            dead = true;
                            continue;
                        }
                        Ok(b) => {
                            if *b != consumable {
                                rep.violation(
                                    &format!("consume-result:{}:{}", class, st_before),
                                    format!("validate_message returned {} for {} in status {}; model says {}", b, class, st_before, consumable),
                                );
                                dead = true;
                                continue;
                            }
                            let got: Vec<Ev> = o.events.iter().filter(|e| e.contract == w.g.sc).cloned().collect();
                            let want = if consumable { vec![w.g.ev_executed(&m)] } else { vec![] };
                            for e in &got {
                                rep.event(&e.kind());
                                w.log.push(e.clone());
                            }
                            if got != want {
                                rep.violation(
                                    &format!("consume-events:{}", class),
                                    format!("gateway events after consume: got {:?}, want {} message_executed", got.iter().map(|e| e.kind()).collect::<Vec<_>>(), want.len()),
                                );
                                dead = true;
                                continue;
                            }
                            if consumable {
                                w.g.model.apply_consume(&m);
                            }
                        }
                    }
                }
            }
            if let Some(d) = sweep(&mut w) {
                rep.violation("status-queries-disagree-with-history", d);
                dead = true;
            }
        }
        if !dead {
            if let Some(d) = offline_check(&w) {
                rep.violation("event-log-exactly-once", d);
            }
            rep.count("offline-logs-checked");
        }
    }
    rep.notes.insert("required".into(), json!(REQUIRED));
    rep.notes.insert("rule".into(), json!("universes of 50 operations over 10 (chain,id) keys whose concatenations collide (directly, when joined with one of six delimiters, or as two splits of one 130..1100-byte string), 2-3 contents per key; ops: single/batched honest approvals with in-batch duplicates, consumption in 9 variants (conforming, again, wrong caller, no/stranger/other-arguments authorisation, wrong source address, wrong payload hash, split variant), ledger advancement by 1 to 1 300 000 ledgers; after every op every key x content (and single-field variations) is queried; distinct = (op class, key status before, consumable, outcome)"));
}

fn dedup_keys(batch: &[MMessage]) -> usize {
    let mut ks: Vec<(Vec<u8>, Vec<u8>)> = batch.iter().map(|m| (m.source_chain.clone(), m.message_id.clone())).collect();
    ks.sort();
    ks.dedup();
    ks.len()
}
