//! C18 — remote token deployments announce the registered token's true id and metadata.
//! Model of registry / trusted chains / balances; the announced payload is compared with the
//! independent ABI encoding of SendToHub{dest, Deploy{id, name, symbol, decimals, no minter}}
//! built from metadata read from the token itself; all balances are diffed.

use crate::gw::*;
use crate::its::*;
use crate::oracle::*;
use crate::probes::ptoken::ProbeTokenClient;
use crate::report::Report;
use crate::rng::Rng;
use crate::tok::*;
use crate::univ::*;
use crate::Ctx;
use serde_json::json;
use soroban_sdk::xdr::ScVal;
use soroban_sdk::{Address, Env};

const CALLERS: &[&str] = &["deployer", "other-account-same-salt", "deployer-unused-salt", "deployer-no-auth", "deployer-stranger-auth"];
const CANON: &[&str] = &["registered", "unregistered-token", "interchain-token-address", "payer-no-auth", "payer-stranger-auth"];
const DESTS: &[&str] = &["trusted", "never-trusted", "removed", "hub-chain"];
const GAS: &[&str] = &["zero", "negative", "one", "balance", "balance+1"];
const META: &[&str] = &["plain", "multi-byte", "decimals-0", "decimals-255", "decimals-256", "decimals-263", "decimals-u32-max", "empty-name", "empty-symbol", "non-utf8-name", "non-utf8-symbol", "asset-style", "trailing-nul", "only-nul", "interior-nul", "whitespace", "long-name"];

fn str_of(u: &mut U, t: &Address, which: &'static str) -> Option<Vec<u8>> {
    let t = t.clone();
    u.query(move |env| {
        let c = soroban_sdk::token::TokenClient::new(env, &t);
        let s = match which {
            "name" => flat(c.try_name()).ok()?,
            _ => flat(c.try_symbol()).ok()?,
        };
        let mut b = vec![0u8; s.len() as usize];
        s.copy_into_slice(&mut b);
        Some(b)
    })
}

fn decimals_of(u: &mut U, t: &Address) -> Option<u32> {
    let t = t.clone();
    u.query(move |env| flat(soroban_sdk::token::TokenClient::new(env, &t).try_decimals()).ok())
}

fn mentions(e: &Ev, v: &ScVal) -> bool {
    if e.topics.iter().any(|t| t == v) || e.data == *v {
        return true;
    }
    if let ScVal::Vec(Some(items)) = &e.data {
        return items.iter().any(|t| t == v);
    }
    false
}

pub fn run(ctx: &Ctx, rep: &mut Report) {
    let total = ctx.universes(720, 30000);
    for uni in ctx.my_universes(total) {
        let mut rng = ctx.rng_for(uni);
        rep.begin_universe(uni);
        if uni == 0 {
            // once per run: the history recorded under the pinned version, continued by the current code
            crate::legacy::run(rep, "C18");
        }
        let hub_addr = b"axelar1hub".to_vec();
        let mut w = ItsWorld::new(&mut rng, b"stellar", &hub_addr, 3);
        w.u.blanket_ok = true;
        w.trust(b"Ethereum-Sepolia");
        w.trust(b"gone");
        {
            let its = w.its.clone();
            w.u.setup(move |env| {
                interchain_token_service::InterchainTokenServiceClient::new(env, &its).remove_trusted_chain(&sstr(env, b"gone"));
            });
            w.model.trusted.remove(&b"gone".to_vec());
        }
        if rng.chance(1, 3) {
            w.trust(HUB_CHAIN);
        }
        let users = w.users.clone();
        // service-deployed tokens with assorted metadata
        let mut locals: Vec<(Address, [u8; 32], [u8; 32], Address)> = Vec::new(); // (deployer, salt, id, addr)
        let mut ok = true;
        for i in 0..2 {
            let dep = users[i].clone();
            let salt = rng.bytes32();
            let (name, symbol, dec): (Vec<u8>, Vec<u8>, u32) = match rng.below(4) {
                0 => (b"Plain Token".to_vec(), b"PLN".to_vec(), 7),
                1 => ("Жетон 🪙 中".as_bytes().to_vec(), "Ж🪙".as_bytes().to_vec(), 18),
                2 => (b"z".to_vec(), b"Z".to_vec(), 0),
                _ => (b"Max Decimals".to_vec(), b"MAXD".to_vec(), 255),
            };
            let o = w.do_deploy(&dep, &salt, &name, &symbol, dec, *rng.pick(&[0i128, 500]), None, Auth::Only(vec![dep.clone()]));
            match o.res {
                Ok(id) => {
                    let addr = w.token_addr(&id);
                    w.model.tokens.insert(id, TokenRec { id, addr: addr.clone(), mode: TokMode::Native, name, symbol, decimals: dec, its_can_mint: true, minter: None });
                    locals.push((dep, salt, id, addr));
                }
                Err(_) => ok = false,
            }
        }
        if !ok {
            rep.foreign("setup-deployment-refused");
            continue;
        }
        // canonical tokens: an asset contract and a probe token with settable metadata
        let admin = w.u.principal();
        let sac = make_token(&mut w.u, TokKind::Sac, &admin, &mut rng);
        let probe = make_token(&mut w.u, TokKind::Probe, &admin, &mut rng);
        let unregistered = make_token(&mut w.u, TokKind::Sac, &admin, &mut rng);
        let mut canon_ids: Vec<(Address, [u8; 32])> = Vec::new();
        for t in [&sac, &probe] {
            let o = w.do_register_canonical(&t.addr);
            match o.res {
                Ok(id) => {
                    w.model.tokens.insert(id, TokenRec { id, addr: t.addr.clone(), mode: TokMode::Lock, name: vec![], symbol: vec![], decimals: 0, its_can_mint: false, minter: None });
                    canon_ids.push((t.addr.clone(), id));
                }
                Err(_) => ok = false,
            }
        }
        if !ok {
            rep.foreign("setup-registration-refused");
            continue;
        }
        for us in &users {
            let g = *rng.pick(&[0i128, 1, 7, 50]);
            if g > 0 {
                w.fund_gas(us, g);
            }
        }
        // track every holder of every token in play
        let mut holders: Vec<Address> = users.clone();
        holders.push(w.its.clone());
        holders.push(w.gs.clone());
        holders.push(w.stranger.clone());
        let mut tracked: Vec<Address> = vec![w.gas.addr.clone(), sac.addr.clone(), probe.addr.clone()];
        tracked.extend(locals.iter().map(|l| l.3.clone()));
        for t in &tracked {
            for h in &holders {
                let b = balance(&mut w.u, t, h);
                w.model.bal.insert((t.clone(), h.clone()), b);
            }
        }
        for _ in 0..24 {
            if rng.chance(1, 10) {
                let d = rng.ledger_jump();
                if w.u.advance(d) {
                    rep.count("advance-ledger");
                    if let Some(dd) = w.check_registry() {
                        rep.violation("registry-or-trust-changed-by-passing-time", dd);
                        break;
                    }
                }
            }
            if rng.chance(1, 20) {
                let a = w.its.clone();
                if w.u.upgrade_and_migrate(&a).is_ok() {
                    rep.count("upgrade-and-migrate");
                    if let Some(dd) = w.check_registry() {
                        rep.violation("registry-or-trust-changed-by-upgrade-and-migrate", dd);
                        break;
                    }
                }
            }
            // now and then the usual destination loses (or regains) its trust right between two
            // requests toward it
            if rng.chance(1, 8) {
                let now = w.model.trusted.contains(&b"Ethereum-Sepolia".to_vec());
                let owner = w.owner.clone();
                let o = w.do_set_trusted(b"Ethereum-Sepolia", !now, Auth::Only(vec![owner]));
                rep.count("trust-flip-of-usual-destination");
                if !o.ok() {
                    rep.foreign("trusted-chain-change-refused");
                    break;
                }
                if now {
                    w.model.trusted.remove(&b"Ethereum-Sepolia".to_vec());
                } else {
                    w.model.trusted.insert(b"Ethereum-Sepolia".to_vec());
                    w.model.ever_trusted.insert(b"Ethereum-Sepolia".to_vec());
                }
            }
            let canonical = rng.chance(1, 2);
            // single-deviation style: one dimension deviates, the others conform (or all random)
            let focus = *rng.pick(&["none", "none", "caller", "caller", "dest", "dest", "gas", "gas", "meta", "meta", "random"]);
            let dclass = if focus == "dest" || focus == "random" { *rng.pick(DESTS) } else { "trusted" };
            let dest: Vec<u8> = match dclass {
                "trusted" => b"Ethereum-Sepolia".to_vec(),
                "never-trusted" => b"polygon".to_vec(),
                "removed" => b"gone".to_vec(),
                _ => HUB_CHAIN.to_vec(),
            };
            let dest_trusted = w.model.trusted.contains(&dest);
            let dclass = if dclass == "trusted" && !dest_trusted { "usual-destination-just-removed" } else { dclass };
            let payer = users[rng.usize(users.len())].clone();
            // now and then somebody names the service itself as the payer of the gas and signs nothing
            // (or signs as a stranger): nobody paid, so nothing may be announced
            if rng.chance(1, 10) {
                let trusted_now: Vec<Vec<u8>> = w.model.trusted.iter().cloned().collect();
                if !trusted_now.is_empty() {
                    let (ta, _) = rng.pick(&canon_ids).clone();
                    let dest = rng.pick(&trusted_now).clone();
                    let its = w.its.clone();
                    let ga = w.gas.addr.clone();
                    let auth = if rng.chance(1, 2) { Auth::Nobody } else { Auth::AllBy(w.stranger.clone()) };
                    let o = w.do_deploy_remote_canonical(&ta, &dest, &its, &ga, 1, auth);
                    rep.count("op:remote-deploy-naming-the-service-as-payer");
                    rep.eval("remote-deploy-naming-the-service-as-payer", &format!("self-payer|{}", o.ok()), true);
                    if let Some(l) = &o.leak {
                        rep.violation("failed-request-left-trace", l.clone());
                        break;
                    }
                    if o.ok() {
                        rep.violation("remote-deploy-accepted:the-service-named-as-payer", "a remote deployment that nobody paid for and nobody signed was announced".into());
                        break;
                    }
                }
            }
            // (token address, expected id if registered, caller, salt)
            let variant: &str;
            let mut auth;
            let token_addr: Address;
            let mut registered_id: Option<[u8; 32]> = None;
            let salt: [u8; 32];
            let caller: Address;
            if canonical {
                variant = if focus == "caller" || focus == "random" { *rng.pick(CANON) } else { "registered" };
                caller = payer.clone();
                salt = [0; 32];
                auth = Auth::Only(vec![payer.clone()]);
                match variant {
                    "unregistered-token" => token_addr = unregistered.addr.clone(),
                    // a token the service deployed for some deployer: as a canonical token it was
                    // never registered, and its deployer is not asked here
                    "interchain-token-address" => token_addr = rng.pick(&locals).3.clone(),
                    _ => {
                        let (a, id) = if focus == "meta" { canon_ids[1].clone() } else { rng.pick(&canon_ids).clone() };
                        token_addr = a;
                        registered_id = Some(id);
                    }
                }
                if variant == "payer-no-auth" {
                    auth = Auth::Nobody;
                }
                if variant == "payer-stranger-auth" {
                    auth = Auth::AllBy(w.stranger.clone());
                }
                // metadata of the probe token is varied
                if token_addr == probe.addr {
                    let mclass = if focus == "meta" || focus == "random" { *rng.pick(META) } else { *rng.pick(&["plain", "multi-byte", "decimals-0", "decimals-255", "asset-style"]) };
                    rep.count(&format!("meta:{}", mclass));
                    let (n, s, d): (Vec<u8>, Vec<u8>, u32) = match mclass {
                        "plain" => (b"Probe".to_vec(), b"PRB".to_vec(), 6),
                        "multi-byte" => ("Ωμέγα 🪙".as_bytes().to_vec(), "Ω".as_bytes().to_vec(), 9),
                        "decimals-0" => (b"P".to_vec(), b"P".to_vec(), 0),
                        "decimals-255" => (b"P".to_vec(), b"P".to_vec(), 255),
                        "decimals-256" => (b"P".to_vec(), b"P".to_vec(), 256),
                        "decimals-263" => (b"P".to_vec(), b"P".to_vec(), 263),
                        "decimals-u32-max" => (b"P".to_vec(), b"P".to_vec(), u32::MAX),
                        "non-utf8-symbol" => (b"P".to_vec(), vec![0xc0, 0x80], 6),
                        "empty-name" => (vec![], b"P".to_vec(), 6),
                        "empty-symbol" => (b"P".to_vec(), vec![], 6),
                        "non-utf8-name" => (vec![0xff, 0xfe, 0x41], b"P".to_vec(), 6),
                        // bytes a lenient conversion might trim or stop at: the announcement must
                        // carry exactly what the token reports
                        "trailing-nul" => (b"Padded\0\0".to_vec(), b"USD\0".to_vec(), 6),
                        "only-nul" => (b"\0".to_vec(), b"\0\0\0\0".to_vec(), 6),
                        "interior-nul" => (b"A\0B".to_vec(), b"\0X".to_vec(), 6),
                        "whitespace" => (b" spaced \n".to_vec(), b"\tT ".to_vec(), 6),
                        "long-name" => (vec![b'n'; 300], vec![b's'; 33], 6),
                        _ => (b"USDC:GA5ZSEJYB37JRC5AVCIA5MOP4RHTM335X2KGX3IHOJAPP5RE34K4KZVN".to_vec(), b"USDC".to_vec(), 7),
                    };
                    let pa = probe.addr.clone();
                    w.u.setup(move |env| ProbeTokenClient::new(env, &pa).set_meta(&sstr(env, &n), &sstr(env, &s), &d));
                }
            } else {
                variant = if focus == "caller" || focus == "random" { *rng.pick(CALLERS) } else { "deployer" };
                let l = rng.pick(&locals).clone();
                token_addr = l.3.clone();
                match variant {
                    "other-account-same-salt" => {
                        caller = users.iter().find(|x| **x != l.0).unwrap().clone();
                        salt = l.1;
                    }
                    "deployer-unused-salt" => {
                        caller = l.0.clone();
                        salt = rng.bytes32();
                    }
                    _ => {
                        caller = l.0.clone();
                        salt = l.1;
                        registered_id = Some(l.2);
                    }
                }
                auth = match variant {
                    "deployer-no-auth" => Auth::Nobody,
                    "deployer-stranger-auth" => Auth::AllBy(w.stranger.clone()),
                    _ => Auth::Only(vec![caller.clone()]),
                };
            }
            let gas_payer = if canonical { payer.clone() } else { caller.clone() };
            let ghave = w.model.balance(&w.gas.addr, &gas_payer);
            if ghave == 0 && focus != "gas" && focus != "random" {
                w.fund_gas(&gas_payer, 3);
            }
            let ghave = w.model.balance(&w.gas.addr, &gas_payer);
            let gclass = if focus == "gas" || focus == "random" { *rng.pick(GAS) } else { *rng.pick(&["one", "balance"]) };
            let gas_amount: i128 = match gclass {
                "zero" => 0,
                "negative" => -1,
                "one" => 1,
                "balance" => ghave,
                _ => ghave + 1,
            };
            // metadata as the token reports it right now
            let name = str_of(&mut w.u, &token_addr, "name");
            let symbol = str_of(&mut w.u, &token_addr, "symbol");
            let decimals = decimals_of(&mut w.u, &token_addr);
            let meta_ok = match (&name, &symbol, decimals) {
                (Some(n), Some(s), Some(d)) => !n.is_empty() && !s.is_empty() && d <= 255 && std::str::from_utf8(n).is_ok() && std::str::from_utf8(s).is_ok(),
                _ => false,
            };
            let authorised = matches!(auth, Auth::Only(_));
            let want = authorised && registered_id.is_some() && dest_trusted && gas_amount > 0 && ghave >= gas_amount && meta_ok;
            rep.step(format!(
                "{} variant={} dest={:?}({}) gas={}({}) payer_has={} meta_ok={} want={}",
                if canonical { "deploy_remote_canonical_token" } else { "deploy_remote_interchain_token" },
                variant,
                lossy(&dest),
                dclass,
                gas_amount,
                gclass,
                ghave,
                meta_ok,
                want
            ));
            let gas_addr = w.gas.addr.clone();
            let o = if canonical {
                w.do_deploy_remote_canonical(&token_addr, &dest, &payer, &gas_addr, gas_amount, auth)
            } else {
                w.do_deploy_remote(&caller, &salt, &dest, &gas_addr, gas_amount, auth)
            };
            rep.count(&format!("{}:{}", if canonical { "canonical" } else { "interchain" }, variant));
            rep.count(&format!("dest:{}", dclass));
            rep.count(&format!("gas:{}", gclass));
            rep.eval(
                if canonical { "deploy-remote-canonical" } else { "deploy-remote-interchain" },
                &format!("{}|{}|{}|{}|{}|{}", canonical, variant, dclass, gclass, meta_ok, o.ok()),
                true,
            );
            if rep.samples.len() < 5 && rng.chance(1, 40) {
                rep.sample(json!({"entry_point": if canonical { "deploy_remote_canonical_token" } else { "deploy_remote_interchain_token" }, "variant": variant, "destination": lossy(&dest), "gas": gas_amount.to_string(), "metadata_representable": meta_ok, "accepted": o.ok()}));
            }
            if let Some(l) = &o.leak {
                rep.violation("failed-request-left-trace", l.clone());
                break;
            }
            if o.ok() != want {
                let why = if !authorised {
                    variant.to_string()
                } else if registered_id.is_none() {
                    format!("unregistered:{}", variant)
                } else if !dest_trusted {
                    format!("destination-{}", dclass)
                } else if !(gas_amount > 0) {
                    format!("gas-{}", gclass)
                } else if ghave < gas_amount {
                    "gas-unaffordable".to_string()
                } else if !meta_ok {
                    "unrepresentable-metadata".to_string()
                } else {
                    "valid".to_string()
                };
                rep.violation(
                    &format!("remote-deploy-{}:{}", if o.ok() { "accepted" } else { "refused" }, why),
                    format!("remote deployment request ({}, {}) -> ok={}, model {}: {:?}", variant, why, o.ok(), want, o.res.as_ref().err().map(|e| e.clone())),
                );
                break;
            }
            if o.ok() {
                let id = registered_id.unwrap();
                if o.res.as_ref().unwrap() != &id {
                    rep.violation("returned-id-differs", "the request returned another id than the registered one".into());
                    break;
                }
                let want_payload = MHubMsg {
                    to_hub: true,
                    chain: dest.clone(),
                    inner: MItsMsg::Deploy { token_id: id, name: name.clone().unwrap(), symbol: symbol.clone().unwrap(), decimals: decimals.unwrap() as u8, minter: vec![] },
                }
                .encode();
                let called: Vec<&Ev> = o.events.iter().filter(|e| e.contract == w.g.sc && e.kind() == "contract_called").collect();
                if called.len() != 1 {
                    rep.violation("announcement-count", format!("{} contract_called events", called.len()));
                    break;
                }
                rep.event("contract_called");
                let want_call = Ev {
                    contract: w.g.sc.clone(),
                    topics: vec![sv_sym("contract_called"), sv_addr(&w.its_sc), sv_str(HUB_CHAIN), sv_str(&hub_addr), sv_bytes(&keccak(&want_payload))],
                    data: sv_bytes(&want_payload),
                };
                if *called[0] != want_call {
                    let what = if called[0].data != want_call.data { "payload" } else { "destination-or-hash" };
                    rep.violation(&format!("announced-{}-differs", what), "the announced deploy message differs from the independent encoding of (id, token's name, symbol, decimals, no minter)".into());
                    break;
                }
                let started: Vec<&Ev> = o.events.iter().filter(|e| e.contract == w.its_sc && e.kind() == "token_deployment_started").collect();
                if started.len() != 1 {
                    rep.count("note:token_deployment_started-count-differs");
                } else {
                    rep.event("token_deployment_started");
                }
                let paid: Vec<&Ev> = o.events.iter().filter(|e| e.contract == sc_addr(&w.gs) && e.kind() == "gas_paid").collect();
                let tokv = sv_struct(vec![("address", sv_addr(&sc_addr(&gas_addr))), ("amount", sv_i128(gas_amount))]);
                if paid.len() != 1 || !mentions(paid[0], &tokv) || !mentions(paid[0], &sv_bytes(&keccak(&want_payload))) {
                    // the payment itself is checked through the balances below
                    rep.count("note:gas_paid-event-differs");
                } else {
                    rep.event("gas_paid");
                }
                w.model.add(&gas_addr, &gas_payer, -gas_amount);
                let gs = w.gs.clone();
                w.model.add(&gas_addr, &gs, gas_amount);
            }
            if let Some(d) = w.check_balances() {
                rep.violation("funds-moved-other-than-gas", d);
                break;
            }
        }
    }
    let mut req: Vec<String> = CALLERS.iter().map(|c| format!("interchain:{}", c)).collect();
    req.extend(CANON.iter().map(|c| format!("canonical:{}", c)));
    req.extend(DESTS.iter().map(|c| format!("dest:{}", c)));
    req.extend(GAS.iter().map(|c| format!("gas:{}", c)));
    req.extend(META.iter().map(|c| format!("meta:{}", c)));
    rep.notes.insert("required".into(), json!(req));
    rep.notes.insert("token_mode".into(), json!("native"));
    rep.notes.insert("rule".into(), json!("universes of 24 requests over 2 service-deployed tokens (tree code; plain, multi-byte, 1-character and 255-decimals metadata), a registered asset contract, a registered probe token whose name/symbol/decimals are varied (multi-byte, 0/255/256 decimals, empty name or symbol, non-UTF-8 name, asset-style CODE:ISSUER, trailing / interior / only NUL bytes, surrounding whitespace, 300-byte name) and an unregistered asset: deploy_remote_interchain_token by the deployer, another account reusing the salt, an unused salt, without or with a stranger's authorisation; deploy_remote_canonical_token for registered / unregistered tokens and for the address of a token the service deployed for somebody with the payer's, no or a stranger's authorisation; destination in {trusted, never trusted, removed before any use, the usual destination right after its trust was removed (and restored later), the hub chain (trusted in a third of the universes)}; gas in {0, -1, 1, balance, balance+1}. On success the announced payload is compared with the independent encoding built from metadata read from the token; exactly one token_deployment_started; gas_paid for that payload; all balances diffed. distinct = (entry point, variant, destination class, gas class, metadata representable, outcome)"));
}
