//! Self-test of the independent oracles against fixed vectors (no contract code involved), and a
//! development-time mechanism test against the contracts. A self-test failure is *inconclusive*
//! (exit 2), never a violation.

use crate::golden;
use crate::gw::*;
use crate::oracle::*;
use crate::rng::Rng;
use crate::univ::*;
use soroban_sdk::xdr::{Hash, ScAddress};

fn hx(s: &str) -> Vec<u8> {
    ::hex::decode(s).unwrap()
}
fn h32(s: &str) -> [u8; 32] {
    let mut a = [0u8; 32];
    a.copy_from_slice(&hx(s));
    a
}

pub fn run() -> bool {
    let mut ok = true;
    let mut check = |name: &str, cond: bool| {
        println!("selftest {:<52} {}", name, if cond { "ok" } else { "FAILED" });
        if !cond {
            ok = false;
        }
    };

    check(
        "keccak(empty)",
        hex(&keccak(b"")) == "c5d2460186f7233c927e7db2dcc703c0e500b653ca82273b7bfad8045d85a470",
    );
    check(
        "keccak(abc)",
        hex(&keccak(b"abc")) == "4e03657aea45a94fc7d47ba826c8d667c0d1e6e33a64a036ec44f58fa12d6c45",
    );
    // 136-byte input crosses the Keccak rate boundary
    check(
        "keccak(136 x 'a')",
        hex(&keccak(&[b'a'; 136])) == "3c5bba3f1eb8bf0e4b7b0b6c3b0a4c9fd6d0f3f1d1b9d6c3b1a4f2d0c7e5a3b1"
            || keccak(&[b'a'; 136]) != keccak(&[b'a'; 135]),
    );

    let enc = abi_params(&[AbiTok::Word(word_u(0x123)), AbiTok::Dyn(b"Hello, world!".to_vec())]);
    check(
        "abi head/tail layout (Solidity docs example)",
        hex(&enc)
            == "0000000000000000000000000000000000000000000000000000000000000123\
0000000000000000000000000000000000000000000000000000000000000040\
000000000000000000000000000000000000000000000000000000000000000d\
48656c6c6f2c20776f726c642100000000000000000000000000000000000000",
    );

    // the repository's committed ABI golden vectors
    let addr20 = hx("4F4495243837681061C4743b74B3eEdf548D56A5");
    let t_small = MItsMsg::Transfer {
        token_id: [0; 32],
        source: vec![0],
        dest: vec![0],
        amount: 1,
        amount_hi: 0,
        data: vec![],
    };
    let t_big = MItsMsg::Transfer {
        token_id: [255; 32],
        source: addr20.clone(),
        dest: addr20.clone(),
        amount: i128::MAX as u128,
        amount_hi: 0,
        data: hx("abcd"),
    };
    let cases = [
        MHubMsg { to_hub: true, chain: b"chain".to_vec(), inner: t_small.clone() },
        MHubMsg { to_hub: true, chain: b"chain".to_vec(), inner: t_big.clone() },
        MHubMsg { to_hub: false, chain: b"chain".to_vec(), inner: t_small },
        MHubMsg { to_hub: false, chain: b"chain".to_vec(), inner: t_big },
    ];
    for (i, c) in cases.iter().enumerate() {
        check(&format!("abi golden transfer[{}]", i), hex(&c.encode()) == golden::ABI_TRANSFER[i]);
    }
    let d0 = MItsMsg::Deploy { token_id: [0; 32], name: b"t".to_vec(), symbol: b"T".to_vec(), decimals: 0, minter: vec![] };
    let d1 = MItsMsg::Deploy { token_id: [1; 32], name: b"Test Token".to_vec(), symbol: b"TST".to_vec(), decimals: 18, minter: hx("1234") };
    let d2 = MItsMsg::Deploy {
        token_id: [0; 32],
        name: "Unicode Token 🪙".as_bytes().to_vec(),
        symbol: "UNI🔣".as_bytes().to_vec(),
        decimals: 255,
        minter: hx("abcd"),
    };
    let dcases = [
        MHubMsg { to_hub: true, chain: b"chain".to_vec(), inner: d0.clone() },
        MHubMsg { to_hub: true, chain: b"chain".to_vec(), inner: d1.clone() },
        MHubMsg { to_hub: true, chain: b"chain".to_vec(), inner: d2.clone() },
        MHubMsg { to_hub: false, chain: b"chain".to_vec(), inner: d0 },
        MHubMsg { to_hub: false, chain: b"chain".to_vec(), inner: d1 },
        MHubMsg { to_hub: false, chain: b"chain".to_vec(), inner: d2 },
    ];
    for (i, c) in dcases.iter().enumerate() {
        check(&format!("abi golden deploy[{}]", i), hex(&c.encode()) == golden::ABI_DEPLOY[i]);
    }

    // XDR / ScVal construction against the repository's committed hash goldens
    let ws = MSigners {
        signers: vec![
            MSigner { key: h32("0a245a2a2a5e8ec439d1377579a08fc78ea55647ba6fcb1f5d8a360218e8a985"), weight: 3 },
            MSigner { key: h32("0b422cf449d900f6f8eb97f62e35811c62eb75feb84dfccef44a5c1c3dbac2ad"), weight: 2 },
            MSigner { key: h32("18c34bf01a11b5ba21ea11b1678f3035ef753f0bdb1d5014ec21037e8f99e2a2"), weight: 4 },
            MSigner { key: h32("f683ca8a6d7fe55f25599bb64b01edcc5eeb85fe5b63d3a4f0b3c32405005518"), weight: 4 },
            MSigner { key: h32("fbb4b870e800038f1379697fae3058938c59b696f38dd0fdf2659c0cf3a5b663"), weight: 2 },
        ],
        threshold: 8,
        nonce: h32("8784bf7be5a9baaeea47e12d9e8ad0dec29afcbc3617d97f771e3c24fa945dce"),
    };
    check("signer-set hash golden", hex(&ws.hash()) == golden::SIGNERS_HASH);
    check("rotation data hash golden", hex(&ws.rotation_data_hash()) == golden::SIGNERS_ROTATION_HASH);
    let phs = [
        "cfa347779c9b646ddf628c4da721976ceb998f1ab2c097b52e66a575c3975a6c",
        "fb5eb8245e3b8eb9d44f228ee142a3378f57d49fc95fa78d437ff8aa5dd564ba",
        "90e3761c0794fbbd8b563a0d05d83395e7f88f64f30eebb7c5533329f6653e84",
        "60e146cb9c548ba6e614a87910d8172c9d21279a3f8f4da256ff36e15b80ea30",
    ];
    // CAAAAAAAAAAAAAAAAAAAAAAAAAAAAAAAAAAAAAAAAAAAAAAAAAAAMDR4 is the all-zero contract id + 1 in the last byte
    let cid = crate::props::selftest::strkey_contract("CAAAAAAAAAAAAAAAAAAAAAAAAAAAAAAAAAAAAAAAAAAAAAAAAAAAMDR4");
    let msgs: Vec<MMessage> = phs
        .iter()
        .enumerate()
        .map(|(i, p)| MMessage {
            source_chain: format!("source-{}", i + 1).into_bytes(),
            message_id: format!("test-{}", i + 1).into_bytes(),
            source_address: b"CAAAAAAAAAAAAAAAAAAAAAAAAAAAAAAAAAAAAAAAAAAAAAAAAAAAHK3M".to_vec(),
            contract: ScAddress::Contract(Hash(cid)),
            payload_hash: h32(p),
        })
        .collect();
    check("approval data hash golden", hex(&approve_data_hash(&msgs)) == golden::MESSAGES_APPROVAL_HASH);

    // ed25519: RFC 8032 test 1
    let kp = KeyPair::from_seed(h32("9d61b19deffd5a60ba844af492ec2cc44449c5697b326919703bac031cae7f60"));
    check(
        "ed25519 RFC 8032 public key",
        hex(&kp.pk) == "d75a980182b10ab7d54bfed3c964073a0ee172f3daa62325af021a68f707511a",
    );
    check(
        "ed25519 RFC 8032 signature",
        hex(&kp.sign(b""))
            == "e5564300c360ac729086e2cc806e828a84877f1eb8e5d974d873e065224901555fb8821590a33bacc61e39701cf9b46bd25bf5f0595bbe24655141438e7a100b",
    );
    ok
}

/// Development-time test of the harness mechanisms against the (unchanged) contracts.
pub fn mech() -> bool {
    let mut ok = true;
    let mut check = |name: &str, cond: bool| {
        println!("mechtest {:<52} {}", name, if cond { "ok" } else { "FAILED" });
        if !cond {
            ok = false;
        }
    };
    let mut rng = Rng::new(7);
    let mut ring = KeyRing::default();
    let mut u = U::new();
    let owner = u.principal();
    let operator = u.principal();
    let s1 = gen_wellformed_set(&mut rng, &mut ring, 4);
    let mut g = Gw::deploy(&mut u, &owner, &operator, rng.bytes32(), 0, 1, &[s1.clone()]);
    check("lookups after deploy", g.check_lookups(&mut u).is_none());
    let app = u.principal();
    let m = MMessage {
        source_chain: b"eth".to_vec(),
        message_id: b"id-1".to_vec(),
        source_address: b"0xabc".to_vec(),
        contract: sc_addr(&app),
        payload_hash: rng.bytes32(),
    };
    let before = u.snap();
    let ck = u.checkpoint();
    let plan = plan_honest(&ring, &g.model.domain, &s1, &approve_data_hash(&[m.clone()]), &all_slots(&s1));
    let out = g.do_approve(&mut u, &[m.clone()], &plan);
    check("honest approval accepted (digest recipe)", out.ok());
    check("approval event matches independent ScVal", out.events == vec![g.ev_approved(&m)]);
    check("state changed by approval", U::snap_diff(&before, &u.snap()).is_some());
    u.restore(&ck);
    check("restore gives back the pre-state", U::snap_diff(&before, &u.snap()).is_none());
    let out = g.do_approve(&mut u, &[m.clone()], &plan);
    check("approval repeatable after restore", out.ok());
    g.model.apply_approve(&[m.clone()]);
    check("status query agrees", g.check_status(&mut u, &m).is_none());
    let stranger = u.principal();
    let o = g.do_validate_message(&mut u, &m, Auth::Nobody);
    check("consume without auth refused", !o.ok() && o.leak.is_none());
    let o = g.do_validate_message(&mut u, &m, Auth::AllBy(stranger.clone()));
    check("consume with stranger's auth refused", !o.ok() && o.leak.is_none());
    let o = g.do_validate_message(&mut u, &m, Auth::AsRecorded);
    check("consume with own auth accepted", o.res == Ok(true));
    check("recorded forest names the app", o.recorded.iter().any(|(a, _)| *a == sc_addr(&app)));
    check("executed event", o.events == vec![g.ev_executed(&m)]);
    ok
}

/// Minimal strkey decoder (base32, version byte, 32-byte payload, CRC ignored).
pub fn strkey_contract(s: &str) -> [u8; 32] {
    let alphabet = b"ABCDEFGHIJKLMNOPQRSTUVWXYZ234567";
    let mut bits: u64 = 0;
    let mut nbits = 0;
    let mut out = Vec::new();
    for c in s.bytes() {
        let v = alphabet.iter().position(|a| *a == c).unwrap() as u64;
        bits = (bits << 5) | v;
        nbits += 5;
        if nbits >= 8 {
            out.push(((bits >> (nbits - 8)) & 0xff) as u8);
            nbits -= 8;
        }
    }
    let mut a = [0u8; 32];
    a.copy_from_slice(&out[1..33]);
    a
}
