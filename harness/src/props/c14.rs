//! C14 — the gas service holds exactly what was paid in minus what its collector paid out.
//! Balance model over (token, holder) stepped with every operation; every movement must be
//! announced by exactly one event of the right kind carrying the same token and amount; offline
//! checker: sum of announced payments and top-ups minus collections and refunds = final balance.

use crate::gw::{sbytes, sstr};
use crate::oracle::*;
use crate::report::Report;
use crate::rng::Rng;
use crate::tok::*;
use crate::univ::*;
use crate::Ctx;
use axelar_gas_service::{AxelarGasService, AxelarGasServiceClient};
use axelar_soroban_std::types::Token;
use serde_json::json;
use soroban_sdk::xdr::ScVal;
use soroban_sdk::{Address, Env, IntoVal, Val};
use std::collections::BTreeMap;

const OPS: [&str; 4] = ["pay_gas", "add_gas", "collect_fees", "refund"];
const AMOUNTS: [&str; 8] = ["zero", "negative", "one", "balance", "balance+1", "random", "i128-max", "2^64+1"];

fn token_scval(addr: &Address, amount: i128) -> ScVal {
    sv_struct(vec![("address", sv_addr(&sc_addr(addr))), ("amount", sv_i128(amount))])
}

fn mentions(e: &Ev, v: &ScVal) -> bool {
    if e.topics.iter().any(|t| t == v) || e.data == *v {
        return true;
    }
    if let ScVal::Vec(Some(items)) = &e.data {
        return items.iter().any(|t| t == v);
    }
    false
}

pub fn run(ctx: &Ctx, rep: &mut Report) {
    let total = ctx.universes(1440, 80000);
    for uni in ctx.my_universes(total) {
        let mut rng = ctx.rng_for(uni);
        rep.begin_universe(uni);
        let mut u = U::new();
        u.blanket_ok = true;
        let mut owner = u.principal();
        // in a quarter of the universes one address holds both roles
        let mut collector = if rng.chance(1, 4) { owner.clone() } else { u.principal() };
        let stranger = u.principal();
        let gs = u.env.register(AxelarGasService, (&owner, &collector));
        u.skip_events();
        let gs_sc = sc_addr(&gs);
        let admin = u.principal();
        let toks = vec![
            make_token(&mut u, TokKind::Sac, &admin, &mut rng),
            make_token(&mut u, TokKind::Native, &admin, &mut rng),
            make_token(&mut u, TokKind::Probe, &admin, &mut rng),
        ];
        let mut toks = toks;
        // one universe in five handles six tokens instead of three: what the service reports per
        // token must not depend on how many tokens it has seen
        if rng.chance(1, 5) {
            for _ in 0..3 {
                toks.push(make_token(&mut u, TokKind::Sac, &admin, &mut rng));
            }
            rep.count("universe:six-tokens");
        }
        let spenders: Vec<Address> = (0..3).map(|_| u.principal()).collect();
        let receivers: Vec<Address> = (0..2).map(|_| u.principal()).chain(std::iter::once(spenders[0].clone())).chain(std::iter::once(gs.clone())).chain(std::iter::once(collector.clone())).chain(std::iter::once(owner.clone())).collect();
        // model balances
        let mut bal: BTreeMap<(usize, Address), i128> = BTreeMap::new();
        for (ti, t) in toks.iter().enumerate() {
            for s in &spenders {
                let amt = match rng.below(5) {
                    0 => 0,
                    1 => 1,
                    2 => 1000,
                    3 => (1i128 << 64) + 1 + rng.below(1000) as i128,
                    _ => (rng.next_u64() >> 20) as i128,
                };
                if amt > 0 {
                    mint(&mut u, t, s, amt);
                }
                bal.insert((ti, s.clone()), amt);
            }
        }
        let mut holders: Vec<Address> = spenders.clone();
        holders.extend(receivers.iter().cloned());
        holders.push(gs.clone());
        holders.dedup();
        let mut sums: BTreeMap<(usize, &'static str), i128> = BTreeMap::new();
        let mut probe_refuses = false;
        let mut alive = true;
        let unknown_fns = unknown_entry_points("axelar-gas-service", &["__constructor", "run_migration", "pay_gas", "add_gas", "collect_fees", "refund", "gas_collector", "owner", "transfer_ownership", "version", "upgrade", "migrate"]);
        for _ in 0..40 {
            if !alive {
                alive = false;
                break;
            }
            if rng.chance(1, 10) {
                probe_refuses = !probe_refuses;
                set_probe_fail(&mut u, &toks[2], probe_refuses);
                rep.step(format!("probe token refuses transfers: {}", probe_refuses));
            }
            if rng.chance(1, 12) {
                let d = rng.ledger_jump();
                if u.advance(d) {
                    rep.step(format!("ledger advances by {}", d));
                    rep.count("advance-ledger");
                }
            }
            if rng.chance(1, 25) && u.upgrade_and_migrate(&gs).is_ok() {
                rep.step("the gas service is upgraded to the same code and migrated".into());
                rep.count("upgrade-and-migrate");
            }
            // the ownership changes hands now and then; the collector named at construction stays
            if rng.chance(1, 25) {
                let new_owner = u.principal();
                let (g2, n2) = (gs.clone(), new_owner.clone());
                u.setup(move |env| axelar_soroban_std::interfaces::OwnableClient::new(env, &g2).transfer_ownership(&n2));
                u.skip_events();
                rep.step("the ownership of the gas service is transferred".into());
                rep.count("ownership-transferred");
                owner = new_owner;
            }
            // entry points this workload has never heard of, called by the role holders (everything
            // authorised) with the addresses at hand: whatever they do, afterwards the collector is
            // whoever the contract says it is, and nobody else moves funds out
            if !unknown_fns.is_empty() && rng.chance(1, 10) {
                let mut tuples: Vec<soroban_sdk::Vec<Val>> = Vec::new();
                for args in [vec![stranger.to_val()], vec![collector.to_val(), stranger.to_val()], vec![owner.to_val(), stranger.to_val()], vec![]] {
                    let mut v: soroban_sdk::Vec<Val> = soroban_sdk::Vec::new(&u.env);
                    for a in args {
                        v.push_back(a);
                    }
                    tuples.push(v);
                }
                let ck_roles = u.checkpoint();
                // first by a stranger: the collector must read the same after every accepted call
                'probe: for auth in [Auth::AllBy(stranger.clone()), Auth::Nobody] {
                    if stranger == collector {
                        break;
                    }
                    for name in &unknown_fns {
                        for t in &tuples {
                            if u.try_unknown(&gs, std::slice::from_ref(name), std::slice::from_ref(t), &auth) > 0 {
                                let g2 = gs.clone();
                                let now = u.query(move |env| AxelarGasServiceClient::new(env, &g2).try_gas_collector());
                                if !matches!(&now, Ok(Ok(c)) if *c == collector) {
                                    rep.violation("collector-changed-by-a-stranger-through-an-unknown-entry-point", format!("after a stranger's call of {} the contract names another collector", name));
                                    alive = false;
                                    break 'probe;
                                }
                            }
                        }
                    }
                }
                u.restore(&ck_roles);
                if !alive {
                    break;
                }
                let mut n = u.try_unknown(&gs, &unknown_fns, &tuples, &Auth::AsRecorded);
                rep.count("unknown-entry-point-tried");
                // a batch variant of a known call: a list of refunds (as records with the parameter
                // names of `refund`, or as plain tuples) to one receiver in two different tokens, asked
                // for by the collector. If it is accepted, each entry must have moved what it says.
                {
                    use soroban_sdk::TryFromVal;
                    let rc = receivers[0].clone();
                    let (h0, h1) = (*bal.get(&(0, gs.clone())).unwrap_or(&0), *bal.get(&(1, gs.clone())).unwrap_or(&0));
                    if h0 >= 1 && h1 >= 2 && rc != gs {
                        let entry = |mid: &[u8], ti: usize, amount: i128, as_record: bool| -> ScVal {
                            if as_record {
                                sv_struct(vec![("message_id", sv_str(mid)), ("receiver", sv_addr(&sc_addr(&rc))), ("token", token_scval(&toks[ti].addr, amount))])
                            } else {
                                sv_vec(vec![sv_str(mid), sv_addr(&sc_addr(&rc)), token_scval(&toks[ti].addr, amount)])
                            }
                        };
                        'batch: for as_record in [true, false] {
                            let list = sv_vec(vec![entry(b"batch-1", 0, 1, as_record), entry(b"batch-2", 1, 2, as_record)]);
                            let Ok(v) = Val::try_from_val(&u.env, &list) else { continue };
                            let mut args: soroban_sdk::Vec<Val> = soroban_sdk::Vec::new(&u.env);
                            args.push_back(v);
                            for name in &unknown_fns {
                                if u.try_unknown(&gs, std::slice::from_ref(name), std::slice::from_ref(&args), &Auth::AsRecorded) > 0 {
                                    n += 1;
                                    rep.count("note:unknown-entry-point-accepted-a-batch");
                                    rep.step(format!("{} accepted a list of two refunds to one receiver (1 of token#0, 2 of token#1)", name));
                                    for (ti, amount) in [(0usize, 1i128), (1, 2)] {
                                        *bal.entry((ti, gs.clone())).or_insert(0) -= amount;
                                        *bal.entry((ti, rc.clone())).or_insert(0) += amount;
                                        *sums.entry((ti, "gas_refunded")).or_insert(0) += amount;
                                    }
                                    break 'batch;
                                }
                            }
                        }
                    }
                }
                let g2 = gs.clone();
                match u.query(move |env| AxelarGasServiceClient::new(env, &g2).try_gas_collector()) {
                    Ok(Ok(c)) => {
                        if n > 0 {
                            rep.count("note:unknown-entry-point-accepted-a-call");
                            rep.step(format!("{} call(s) of entry points outside the pinned interface were accepted; the contract now names {} as collector", n, if c == collector { "the same address" } else { "another address" }));
                        }
                        collector = c;
                        let g2 = gs.clone();
                        if let Ok(Ok(o)) = u.query(move |env| axelar_soroban_std::interfaces::OwnableClient::new(env, &g2).try_owner()) {
                            owner = o;
                        }
                    }
                    _ => u.restore(&ck_roles),
                }
            }
            let op = *rng.pick(&OPS);
            let ti = rng.usize(toks.len());
            let t = toks[ti].clone();
            let spender = rng.pick(&spenders).clone();
            let receiver = rng.pick(&receivers).clone();
            let inbound = op == "pay_gas" || op == "add_gas";
            let payer = if inbound { spender.clone() } else { gs.clone() };
            let have = *bal.get(&(ti, payer.clone())).unwrap_or(&0);
            let aclass = *rng.pick(&AMOUNTS);
            let amount: i128 = match aclass {
                "zero" => 0,
                "negative" => -1 - (rng.below(5) as i128),
                "one" => 1,
                "balance" => have,
                "balance+1" => have + 1,
                "i128-max" => i128::MAX,
                "2^64+1" => (1i128 << 64) + 1,
                _ => 1 + (rng.next_u64() as i128 % (have.max(1) * 2)),
            };
            // who authorises
            let honest_signer = if inbound { spender.clone() } else { collector.clone() };
            let auth_class = *rng.pick(&["own", "own", "own", "own", "none", "stranger", "owner", "counterparty"]);
            let signer: Option<Address> = match auth_class {
                "own" => Some(honest_signer.clone()),
                "none" => None,
                "stranger" => Some(stranger.clone()),
                "owner" => Some(owner.clone()),
                _ => Some(if inbound { collector.clone() } else { receiver.clone() }),
            };
            let auth = match (&signer, auth_class) {
                (Some(a), "own") => Auth::Only(vec![a.clone()]),
                (Some(a), _) => Auth::AllBy(a.clone()),
                (None, _) => Auth::Nobody,
            };
            // whoever the label, what counts is whether the signing address is the one the property names
            let authorised = signer.as_ref() == Some(&honest_signer);
            let refused_by_token = t.kind == TokKind::Probe && probe_refuses;
            let token = (t.addr.clone(), amount);
            let payload = rng.bytes_upto(40);
            let msg_id = format!("m{}", rng.below(5)).into_bytes();
            let (gsa, sp, rc, tk, pl, mid) = (gs.clone(), spender.clone(), receiver.clone(), token.clone(), payload.clone(), msg_id.clone());
            let sender_app = stranger.clone();
            let f = move |env: &Env| -> Result<(), String> {
                let c = AxelarGasServiceClient::new(env, &gsa);
                let tokv = Token { address: tk.0.clone(), amount: tk.1 };
                match op {
                    "pay_gas" => flat(c.try_pay_gas(&sender_app, &sstr(env, b"dest"), &sstr(env, b"0xdest"), &sbytes(env, &pl), &sp, &tokv, &sbytes(env, b"meta"))),
                    "add_gas" => flat(c.try_add_gas(&sender_app, &sstr(env, &mid), &sp, &tokv)),
                    "collect_fees" => flat(c.try_collect_fees(&rc, &tokv)),
                    _ => flat(c.try_refund(&sstr(env, &mid), &rc, &tokv)),
                }
            };
            let affordable = amount <= have;
            let expect_ok: Option<bool> = if !authorised || refused_by_token {
                Some(false)
            } else if !inbound && receiver == gs {
                // paying out to the service itself moves nothing; the statement does not say whether
                // such a request is served (net zero) or refused
                None
            } else if op == "refund" {
                if amount > 0 {
                    Some(affordable)
                } else {
                    None // the statement is silent on non-positive refunds
                }
            } else {
                Some(amount > 0 && affordable)
            };
            rep.step(format!("{} token#{} {:?} amount={}({}) auth={} payer_has={} expect={:?}", op, ti, t.kind, amount, aclass, auth_class, have, expect_ok));
            let o = u.call(auth, &f);
            rep.count(&format!("op:{}", op));
            rep.count(&format!("amount:{}", aclass));
            rep.count(&format!("auth:{}", auth_class));
            rep.eval(op, &format!("{}|{:?}|{}|{}|{}|{}", op, t.kind, aclass, auth_class, refused_by_token, o.ok()), true);
            if rep.samples.len() < 5 && rng.chance(1, 60) {
                rep.sample(json!({"op": op, "token": format!("{:?}", t.kind), "amount": amount.to_string(), "auth": auth_class, "payer_balance": have.to_string(), "accepted": o.ok()}));
            }
            if let Some(l) = &o.leak {
                rep.violation(&format!("rejected-call-left-trace:{}", op), l.clone());
                alive = false;
                break;
            }
            if let Some(want) = expect_ok {
                if o.ok() != want {
                    let why = if !authorised { format!("auth={}", auth_class) } else if refused_by_token { "token-refuses".to_string() } else { format!("amount={}", aclass) };
                    rep.violation(
                        &format!("{}-{}:{}", op, if o.ok() { "accepted" } else { "refused" }, why),
                        format!("{} of {} (payer holds {}) with {}: ok={} but the model says {}: {:?}", op, amount, have, why, o.ok(), want, o.res),
                    );
                    alive = false;
                    break;
                }
            }
            if o.ok() {
                // exactly one announcement of the right kind with the same token and amount
                let kind = match op {
                    "pay_gas" => "gas_paid",
                    "add_gas" => "gas_added",
                    "collect_fees" => "gas_collected",
                    _ => "gas_refunded",
                };
                let mine: Vec<&Ev> = o.events.iter().filter(|e| e.contract == gs_sc).collect();
                for e in &mine {
                    rep.event(&e.kind());
                }
                let announcements: Vec<&&Ev> = mine.iter().filter(|e| ["gas_paid", "gas_added", "gas_collected", "gas_refunded"].contains(&e.kind().as_str())).collect();
                if announcements.len() != 1 || announcements[0].kind() != kind {
                    rep.violation(
                        &format!("{}-announcement-count", op),
                        format!("want exactly one {} event, got {:?}", kind, announcements.iter().map(|e| e.kind()).collect::<Vec<_>>()),
                    );
                    alive = false;
                    break;
                }
                if !mentions(announcements[0], &token_scval(&t.addr, amount)) {
                    rep.violation(
                        &format!("{}-announcement-token-amount", op),
                        format!("{} event does not carry token {:?} amount {}", kind, t.kind, amount),
                    );
                    alive = false;
                    break;
                }
                // a pay-out whose receiver is the service itself leaves and re-enters: net zero
                if inbound || receiver != gs {
                    *sums.entry((ti, kind)).or_insert(0) += amount;
                }
                // model
                let (from, to) = if inbound { (spender.clone(), gs.clone()) } else { (gs.clone(), receiver.clone()) };
                *bal.entry((ti, from)).or_insert(0) -= amount;
                *bal.entry((ti, to)).or_insert(0) += amount;
            }
            // balances of everybody for every token
            for (tj, tt) in toks.iter().enumerate() {
                for h in &holders {
                    let want = *bal.get(&(tj, h.clone())).unwrap_or(&0);
                    let got = balance(&mut u, &tt.addr, h);
                    if got != want {
                        let who = if *h == gs { "service" } else { "user" };
                        rep.violation(
                            &format!("balance-mismatch:{}:{}", who, op),
                            format!("after {} of {}: {} balance of token#{} is {}, model {}", op, amount, who, tj, got, want),
                        );
                        alive = false;
                        alive = false;
                        break;
                    }
                    if got < 0 {
                        rep.violation("negative-balance", format!("token#{} balance {}", tj, got));
                        alive = false;
                    }
                }
                if !alive {
                    alive = false;
                    break;
                }
            }
        }
        if alive {
            // offline conservation over announced amounts
            for (tj, tt) in toks.iter().enumerate() {
                let s = |k: &'static str| *sums.get(&(tj, k)).unwrap_or(&0);
                let announced = s("gas_paid") + s("gas_added") - s("gas_collected") - s("gas_refunded");
                let got = balance(&mut u, &tt.addr, &gs);
                if announced != got {
                    rep.violation(
                        "conservation-over-events",
                        format!("token#{}: paid+added-collected-refunded = {} but the service holds {}", tj, announced, got),
                    );
                }
                rep.count("offline-conservation-checked");
            }
        }
    }
    let mut req: Vec<String> = OPS.iter().map(|o| format!("op:{}", o)).collect();
    req.extend(AMOUNTS.iter().map(|o| format!("amount:{}", o)));
    req.push("offline-conservation-checked".into());
    rep.notes.insert("required".into(), json!(req));
    rep.notes.insert("rule".into(), json!("universes of 40 operations over 3 tokens (Stellar asset contract, the tree's interchain token, a probe token that can refuse transfers), 3 spenders, 6 receivers (two plain accounts, a spender, the service itself, the collector, the owner); op in {pay_gas, add_gas, collect_fees, refund}, amount in {0, negative, 1, payer's balance, balance+1, random, i128::MAX}, authoriser in {own (spender / collector), nobody, stranger, contract owner, counterparty}; all balances of all holders compared with the model after every operation; per universe sum(gas_paid)+sum(gas_added)-sum(gas_collected)-sum(gas_refunded) over announced amounts = final service balance. distinct = (op, token kind, amount class, authoriser, token refusing, outcome)"));
}
