//! C05 — interchain transfers conserve value and announce exactly what was taken.
//! Balance / custody / supply model stepped with every operation over tokens of both kinds;
//! announced payload compared with the independent ABI encoder; offline conservation checker
//! over the recorded event log at the end of every universe.

use crate::gw::*;
use crate::its::*;
use crate::oracle::*;
use crate::probes::its_exec::ProbeExecutableClient;
use crate::report::Report;
use crate::rng::Rng;
use crate::tok::*;
use crate::univ::*;
use crate::Ctx;
use interchain_token::InterchainTokenClient;
use serde_json::json;
use soroban_sdk::xdr::ScVal;
use soroban_sdk::{Address, Env};
use std::collections::BTreeMap;

const OPS: &[&str] = &["outbound", "inbound", "trust-change", "direct-burn", "minter-mint", "redeliver-executed"];
const AMOUNTS: &[&str] = &["zero", "negative", "one", "balance", "balance+1", "random"];
const GAS: &[&str] = &["zero", "negative", "one", "affordable", "unaffordable"];
const DESTS: &[&str] = &["trusted", "never-trusted", "removed", "hub-chain"];

#[derive(Clone)]
struct T {
    id: [u8; 32],
    addr: Address,
    lock: bool,
    probe: bool,
    label: &'static str,
}

fn mentions(e: &Ev, v: &ScVal) -> bool {
    if e.topics.iter().any(|t| t == v) || e.data == *v {
        return true;
    }
    if let ScVal::Vec(Some(items)) = &e.data {
        return items.iter().any(|t| t == v);
    }
    false
}

fn i128_of(v: &ScVal) -> Option<i128> {
    match v {
        ScVal::I128(p) => Some(((p.hi as i128) << 64) | p.lo as i128),
        _ => None,
    }
}

pub fn run(ctx: &Ctx, rep: &mut Report) {
    let total = ctx.universes(960, 48000);
    for uni in ctx.my_universes(total) {
        let mut rng = ctx.rng_for(uni);
        rep.begin_universe(uni);
        if uni == 0 {
            // once per run: the history recorded under the pinned version, continued by the current code
            crate::legacy::run(rep, "C05");
        }
        let hub_addr = b"axelar1hub".to_vec();
        let mut w = ItsWorld::new(&mut rng, b"stellar", &hub_addr, 4);
        w.u.blanket_ok = true;
        w.trust(b"ethereum");
        w.trust(b"Avalanche-Fuji");
        w.trust(b"gone");
        {
            let its = w.its.clone();
            w.u.setup(move |env| {
                interchain_token_service::InterchainTokenServiceClient::new(env, &its).remove_trusted_chain(&sstr(env, b"gone"));
            });
            w.model.trusted.remove(&b"gone".to_vec());
        }
        let users = w.users.clone();
        let mut toks: Vec<T> = Vec::new();
        // service-deployed tokens: A (supply 1000 to user0), B (no supply, minter user1)
        let mut setup_ok = true;
        for (label, supply, minter, dep) in [("native-A", 1000i128, None, 0usize), ("native-B", 0i128, Some(users[1].clone()), 1usize)] {
            let salt = rng.bytes32();
            let o = w.do_deploy(&users[dep], &salt, label.as_bytes(), b"SYM", 7, supply, minter, Auth::Only(vec![users[dep].clone()]));
            match o.res {
                Ok(id) => {
                    let addr = w.token_addr(&id);
                    if supply > 0 {
                        w.model.add(&addr, &users[dep], supply);
                    }
                    toks.push(T { id, addr, lock: false, probe: false, label });
                }
                Err(_) => setup_ok = false,
            }
        }
        if !setup_ok {
            rep.foreign("setup-deployment-refused");
            continue;
        }
        // anybody may also register a token the service deployed as a canonical token (it gets a
        // second, unrelated id, which this workload never uses): under its own id it is still
        // burned and minted
        if rng.chance(1, 3) {
            let a = toks[0].addr.clone();
            let o = w.do_register_canonical(&a);
            rep.count(if o.ok() { "service-token-also-registered-as-canonical" } else { "service-token-canonical-registration-refused" });
        }
        // canonical tokens: asset contract, a stand-alone interchain token, a probe token
        let admin = w.u.principal();
        for (label, kind) in [("canonical-sac", TokKind::Sac), ("canonical-interchain-token", TokKind::Native), ("canonical-probe", TokKind::Probe)] {
            let t = make_token(&mut w.u, kind, &admin, &mut rng);
            let o = w.do_register_canonical(&t.addr);
            match o.res {
                Ok(id) => {
                    for us in users.iter().take(3) {
                        let amt = *rng.pick(&[0i128, 5, 1000]);
                        if amt > 0 {
                            mint(&mut w.u, &t, us, amt);
                            w.model.add(&t.addr, us, amt);
                        }
                    }
                    toks.push(T { id, addr: t.addr.clone(), lock: true, probe: kind == TokKind::Probe, label });
                }
                Err(_) => setup_ok = false,
            }
        }
        if !setup_ok {
            rep.foreign("setup-registration-refused");
            continue;
        }
        let probe_tok = Tok { kind: TokKind::Probe, addr: toks[4].addr.clone(), admin: admin.clone() };
        // one universe in five works with many tokens (13 instead of 5): whatever the service keeps
        // per token must not depend on how many tokens it has seen
        if rng.chance(1, 5) {
            for k in 0..8usize {
                let salt = rng.bytes32();
                let dep = k % 2;
                let o = w.do_deploy(&users[dep], &salt, b"native-extra", b"XTR", 7, 100, None, Auth::Only(vec![users[dep].clone()]));
                if let Ok(id) = o.res {
                    let addr = w.token_addr(&id);
                    w.model.add(&addr, &users[dep], 100);
                    toks.push(T { id, addr, lock: false, probe: false, label: "native-extra" });
                }
            }
            rep.count("universe:many-tokens");
        }
        for us in &users {
            let g = *rng.pick(&[0i128, 1, 50]);
            if g > 0 {
                w.fund_gas(us, g);
            }
        }
        // every (token, holder) pair is tracked
        let mut holders: Vec<Address> = users.clone();
        holders.push(w.its.clone());
        holders.push(w.gs.clone());
        holders.push(w.app.clone());
        for t in toks.iter().map(|t| t.addr.clone()).chain(std::iter::once(w.gas.addr.clone())) {
            for h in &holders {
                w.model.bal.entry((t.clone(), h.clone())).or_insert(0);
            }
        }
        if let Some(d) = w.check_balances() {
            rep.inconclusive(format!("set-up balances disagree with the model: {}", d));
            continue;
        }
        // bookkeeping for the offline checker
        let mut sent: BTreeMap<[u8; 32], i128> = BTreeMap::new();
        let mut received: BTreeMap<[u8; 32], i128> = BTreeMap::new();
        let mut direct: BTreeMap<[u8; 32], i128> = BTreeMap::new(); // minter mints - user burns
        let initial_supply: BTreeMap<[u8; 32], i128> = toks.iter().filter(|t| !t.lock).map(|t| (t.id, if t.label == "native-A" { 1000 } else if t.label == "native-extra" { 100 } else { 0 })).collect();
        let mut probe_refuses = false;
        let mut alive = true;
        let mut window: Option<Address> = None;
        let mut executed_inbound: Vec<(Vec<u8>, Vec<u8>)> = Vec::new(); // (message id, payload)
        // scripted follow-ups: a valid transfer toward X, X loses its trust, the same transfer again
        let mut script: std::collections::VecDeque<(&str, Vec<u8>)> = std::collections::VecDeque::new();
        // in the many-token universes every extra token is sent once, in turn, and then the first
        // ones again (token index for the scripted outbound transfers, front first)
        let mut forced_tokens: std::collections::VecDeque<usize> = std::collections::VecDeque::new();
        if toks.len() > 5 {
            for i in (5..toks.len()).chain(5..8) {
                script.push_back(("outbound", b"ethereum".to_vec()));
                forced_tokens.push_back(i);
            }
        }
        for _ in 0..36 {
            if !alive {
                alive = false;
                break;
            }
            if rng.chance(1, 12) {
                probe_refuses = !probe_refuses;
                set_probe_fail(&mut w.u, &probe_tok, probe_refuses);
            }
            // the service or the gateway is upgraded to the same code; the migration follows a few
            // operations later (while the window is open a valid request may be refused, but one
            // that is accepted must have its full effect)
            match window.clone() {
                None => {
                    if rng.chance(1, 20) {
                        let a = if rng.chance(1, 2) { w.its.clone() } else { w.g.addr.clone() };
                        if w.u.upgrade_only(&a).is_ok() {
                            rep.step("upgrade to the same code: the migration window opens".into());
                            rep.count("migration-window-opened");
                            window = Some(a);
                        }
                    }
                }
                Some(a) => {
                    if rng.chance(1, 3) {
                        if w.u.migrate_only(&a, &[]).is_ok() {
                            rep.step("migration: the window closes".into());
                            rep.count("upgrade-and-migrate");
                        }
                        window = None;
                        if let Some(dd) = w.check_registry() {
                            rep.violation("registry-or-trust-changed-by-upgrade-and-migrate", dd);
                            alive = false;
                            break;
                        }
                    }
                }
            }
            if rng.chance(1, 12) {
                let d = rng.ledger_jump();
                if w.u.advance(d) {
                    rep.step(format!("ledger advances by {}", d));
                    rep.count("advance-ledger");
                    if let Some(dd) = w.check_registry() {
                        rep.violation("registry-or-trust-changed-by-passing-time", dd);
                        alive = false;
                        break;
                    }
                }
            }
            // Now and then somebody names the service itself as the payer of the gas for a remote
            // deployment, in a token the service holds in custody, and signs nothing (or signs as a
            // stranger): what is locked for the holders is not the service's to spend.
            if rng.chance(1, 12) {
                let locked: Vec<T> = toks.iter().filter(|t| t.lock && w.model.balance(&t.addr, &w.its) > 0).cloned().collect();
                let trusted_now: Vec<Vec<u8>> = w.model.trusted.iter().cloned().collect();
                if let (Some(lt), false) = (locked.first(), trusted_now.is_empty()) {
                    let custody = w.model.balance(&lt.addr, &w.its);
                    let amount = 1 + rng.below(custody.min(1 << 40) as u64) as i128;
                    let dest = rng.pick(&trusted_now).clone();
                    let its = w.its.clone();
                    let auth = if rng.chance(1, 2) { Auth::Nobody } else { Auth::AllBy(w.stranger.clone()) };
                    let o = w.do_deploy_remote_canonical(&lt.addr, &dest, &its, &lt.addr, amount, auth);
                    rep.count("op:remote-deploy-paid-by-the-service-itself");
                    rep.eval("remote-deploy-paid-by-the-service-itself", &format!("self-payer|{}|{}", lt.label, o.ok()), true);
                    rep.step(format!("deploy_remote_canonical_token({}) naming the service as gas payer of {} of that token (custody {}) -> ok={}", lt.label, amount, custody, o.ok()));
                    if let Some(l) = &o.leak {
                        rep.violation("failed-request-left-trace:remote-deploy-paid-by-the-service-itself", l.clone());
                        alive = false;
                        break;
                    }
                    if o.ok() {
                        rep.violation("custody-spent-as-gas", format!("a remote deployment that nobody paid for went through with {} of the locked {} as its gas", amount, lt.label));
                        alive = false;
                        break;
                    }
                }
            }
            let scripted = script.pop_front();
            let op = match &scripted {
                Some((o, _)) => *o,
                None => OPS[rng.weighted(&[10, 8, 2, 2, 2, 2])],
            };
            let mut t = toks[rng.usize(toks.len())].clone();
            let mut user = users[rng.usize(users.len())].clone();
            let forced = if matches!(&scripted, Some(("outbound", _))) { forced_tokens.pop_front() } else { None };
            if let Some(i) = forced {
                t = toks[i].clone();
                if let Some(uu) = users.iter().find(|uu| w.model.balance(&t.addr, uu) >= 1) {
                    user = uu.clone();
                    if w.model.balance(&w.gas.addr, &user) < 1 {
                        w.fund_gas(&user, 5);
                    }
                }
            } else if let Some(("outbound", _)) = &scripted {
                // a holder who can afford both the transfer and the gas
                'find: for tt in &toks {
                    for uu in &users {
                        if !(tt.probe && probe_refuses) && w.model.balance(&tt.addr, uu) >= 1 && w.model.balance(&w.gas.addr, uu) >= 1 {
                            t = tt.clone();
                            user = uu.clone();
                            break 'find;
                        }
                    }
                }
            }
            match op {
                "outbound" => {
                    let have = w.model.balance(&t.addr, &user);
                    let aclass = if scripted.is_some() { "one" } else { *rng.pick(AMOUNTS) };
                    let amount: i128 = match aclass {
                        "zero" => 0,
                        "negative" => -1,
                        "one" => 1,
                        "balance" => have,
                        "balance+1" => have + 1,
                        _ => 1 + rng.below(have.clamp(1, 1 << 62) as u64 + 2) as i128,
                    };
                    // sometimes the gas is paid in the very token that is being transferred
                    let gas_same = scripted.is_none() && !t.probe && rng.chance(1, 6);
                    let gas_addr_sel = if gas_same { t.addr.clone() } else { w.gas.addr.clone() };
                    let ghave = if gas_same { (have - amount.max(0)).max(0) } else { w.model.balance(&gas_addr_sel, &user) };
                    let gclass = if scripted.is_some() { "one" } else { *rng.pick(GAS) };
                    let gas_amount: i128 = match gclass {
                        "zero" => 0,
                        "negative" => -1,
                        "one" => 1,
                        "affordable" => ghave,
                        _ => ghave + 1,
                    };
                    let dclass = match &scripted {
                        Some((_, c)) => {
                            rep.count("scripted-outbound-around-trust-removal");
                            if w.model.trusted.contains(c) { "scripted-trusted" } else { "scripted-removed" }
                        }
                        None => *rng.pick(DESTS),
                    };
                    let dest: Vec<u8> = match dclass {
                        "scripted-trusted" | "scripted-removed" => scripted.clone().unwrap().1,
                        "trusted" => {
                            let tr: Vec<Vec<u8>> = w.model.trusted.iter().filter(|c| c.as_slice() != HUB_CHAIN).cloned().collect();
                            if tr.is_empty() {
                                continue;
                            }
                            rng.pick(&tr).clone()
                        }
                        "never-trusted" => b"polygon".to_vec(),
                        "removed" => {
                            let rm: Vec<Vec<u8>> = w.model.ever_trusted.iter().filter(|c| !w.model.trusted.contains(*c)).cloned().collect();
                            if rm.is_empty() {
                                continue;
                            }
                            rng.pick(&rm).clone()
                        }
                        _ => HUB_CHAIN.to_vec(),
                    };
                    let dest_trusted = w.model.trusted.contains(&dest);
                    let dest_addr = rng.bytes_of(&[0, 1, 20, 33, 20, 33, 1, 300, 1500, 17000]);
                    let data: Option<Vec<u8>> = if rng.chance(1, 3) { Some(rng.bytes_of(&[0, 1, 32, 100, 32, 100, 1, 1100, 4100, 9000])) } else { None };
                    let unauth = scripted.is_none() && rng.chance(1, 15);
                    let auth = if unauth { Auth::Nobody } else { Auth::Only(vec![user.clone()]) };
                    let refused = t.probe && probe_refuses;
                    let want = !unauth && amount > 0 && have >= amount && dest_trusted && gas_amount > 0 && ghave >= gas_amount && !refused;
                    rep.step(format!("outbound {} amount={}({}) gas={}({}) dest={:?}({}) data={} auth={} want={}", t.label, amount, aclass, gas_amount, gclass, lossy(&dest), dclass, data.is_some(), !unauth, want));
                    let gas_addr = gas_addr_sel.clone();
                    // an id nobody registered: must be refused whatever else is right
                    if rng.chance(1, 25) {
                        let unknown = rng.bytes32();
                        let o = w.do_transfer(&user, &unknown, &dest, &dest_addr, amount.max(1), data.clone(), &gas_addr, gas_amount.max(1), Auth::Only(vec![user.clone()]));
                        rep.count("outbound-unknown-token");
                        rep.eval("outbound-unknown-token", &format!("out|unknown|{}", o.ok()), true);
                        if let Some(l) = &o.leak {
                            rep.violation("failed-transfer-left-trace", l.clone());
                            break;
                        }
                        if o.ok() {
                            rep.violation("outbound-accepted:unknown-token", "interchain_transfer for an id that was never registered succeeded".into());
                            break;
                        }
                    }
                    if gas_same {
                        rep.count("gas-token:same-as-transferred");
                    }
                    let o = w.do_transfer(&user, &t.id, &dest, &dest_addr, amount, data.clone(), &gas_addr, gas_amount, auth);
                    rep.count("op:outbound");
                    rep.count(&format!("amount:{}", aclass));
                    rep.count(&format!("gas:{}", gclass));
                    rep.count(&format!("dest:{}", dclass));
                    rep.count(&format!("token:{}", t.label));
                    rep.eval("outbound", &format!("out|{}|{}|{}|{}|{}|{}", t.label, aclass, gclass, dclass, unauth, o.ok()), true);
                    if rep.samples.len() < 5 && rng.chance(1, 50) {
                        rep.sample(json!({"op": "interchain_transfer", "token": t.label, "amount": amount.to_string(), "gas": gas_amount.to_string(), "destination": lossy(&dest), "accepted": o.ok()}));
                    }
                    if let Some(l) = &o.leak {
                        rep.violation("failed-transfer-left-trace", l.clone());
                        alive = false;
                        break;
                    }
                    if window.is_some() && want && !o.ok() {
                        rep.count("note:valid-request-refused-while-migration-window-open");
                        continue;
                    }
                    if o.ok() != want {
                        let why = if unauth {
                            "no-auth".to_string()
                        } else if !(amount > 0) {
                            format!("amount-{}", aclass)
                        } else if have < amount {
                            "insufficient-balance".to_string()
                        } else if !dest_trusted {
                            format!("destination-{}", dclass)
                        } else if !(gas_amount > 0) {
                            format!("gas-{}", gclass)
                        } else if ghave < gas_amount {
                            "gas-unaffordable".to_string()
                        } else if refused {
                            "token-refuses".to_string()
                        } else {
                            "valid".to_string()
                        };
                        rep.violation(
                            &format!("outbound-{}:{}", if o.ok() { "accepted" } else { "refused" }, why),
                            format!("interchain_transfer of {} {} (holder has {}) with gas {} toward {:?}: ok={}, model {} ({}): {:?}", amount, t.label, have, gas_amount, lossy(&dest), o.ok(), want, why, o.res.as_ref().err()),
                        );
                        alive = false;
                        break;
                    }
                    if !o.ok() {
                        continue;
                    }
                    // model: tokens leave the sender (burned or locked), gas moves to the gas service
                    w.model.add(&t.addr, &user, -amount);
                    if t.lock {
                        let its = w.its.clone();
                        w.model.add(&t.addr, &its, amount);
                    }
                    w.model.add(&gas_addr, &user, -gas_amount);
                    let gs = w.gs.clone();
                    w.model.add(&gas_addr, &gs, gas_amount);
                    *sent.entry(t.id).or_insert(0) += amount;
                    // the announcement
                    let want_payload = MHubMsg {
                        to_hub: true,
                        chain: dest.clone(),
                        inner: MItsMsg::Transfer { token_id: t.id, source: addr_bytes(&user), dest: dest_addr.clone(), amount: amount as u128, amount_hi: 0, data: data.clone().unwrap_or_default() },
                    }
                    .encode();
                    let called: Vec<&Ev> = o.events.iter().filter(|e| e.contract == w.g.sc && e.kind() == "contract_called").collect();
                    if called.len() != 1 {
                        rep.violation("announcement-count", format!("{} contract_called events for one transfer", called.len()));
                        alive = false;
                        break;
                    }
                    rep.event("contract_called");
                    let want_call = Ev {
                        contract: w.g.sc.clone(),
                        topics: vec![sv_sym("contract_called"), sv_addr(&w.its_sc), sv_str(HUB_CHAIN), sv_str(&hub_addr), sv_bytes(&keccak(&want_payload))],
                        data: sv_bytes(&want_payload),
                    };
                    if *called[0] != want_call {
                        let what = if called[0].data != want_call.data {
                            "payload"
                        } else if called[0].topics.get(2) != want_call.topics.get(2) || called[0].topics.get(3) != want_call.topics.get(3) {
                            "hub-destination"
                        } else {
                            "other-field"
                        };
                        rep.violation(&format!("announced-{}-differs", what), format!("contract_called differs from the independent encoding of what was taken ({})", what));
                        alive = false;
                        break;
                    }
                    let paid: Vec<&Ev> = o.events.iter().filter(|e| e.contract == sc_addr(&w.gs) && e.kind() == "gas_paid").collect();
                    // The statement fixes the charge (checked through the balances) and the announcement to
                    // the hub (checked above); the gas service's and the service's own events are
                    // recorded but not judged.
                    let tokv = sv_struct(vec![("address", sv_addr(&sc_addr(&gas_addr))), ("amount", sv_i128(gas_amount))]);
                    if paid.len() == 1 && mentions(paid[0], &tokv) && mentions(paid[0], &sv_bytes(&keccak(&want_payload))) {
                        rep.event("gas_paid");
                    } else {
                        rep.count("note:gas_paid-event-differs");
                    }
                    let sent_ev: Vec<&Ev> = o.events.iter().filter(|e| e.contract == w.its_sc && e.kind() == "interchain_transfer_sent").collect();
                    if sent_ev.len() == 1 && mentions(sent_ev[0], &sv_bytes(&t.id)) && mentions(sent_ev[0], &sv_i128(amount)) {
                        rep.event("interchain_transfer_sent");
                    } else {
                        rep.count("note:interchain_transfer_sent-event-differs");
                    }
                }
                "inbound" => {
                    let with_data = rng.chance(1, 3);
                    let recipient = if with_data { w.app.clone() } else { users[rng.usize(users.len())].clone() };
                    let custody = w.model.balance(&t.addr, &w.its.clone());
                    let aclass = *rng.pick(&["one", "custody", "custody+1", "random", "zero", "huge", "2^64", "2^72", "2^100"]);
                    let amount: i128 = match aclass {
                        "one" => 1,
                        "custody" => custody,
                        "custody+1" => custody + 1,
                        "zero" => 0,
                        "huge" => (1i128 << 120) + rng.below(1000) as i128,
                        // amounts whose big-endian form has 9 to 15 significant bytes
                        "2^64" => 1i128 << 64,
                        "2^72" => (1i128 << 72) + rng.below(1000) as i128,
                        "2^100" => (1i128 << 100) + rng.below(1000) as i128,
                        _ => 1 + rng.below(2000) as i128,
                    };
                    let trusted_list: Vec<Vec<u8>> = w.model.trusted.iter().cloned().collect();
                    let origin: Vec<u8> = if trusted_list.is_empty() || rng.chance(1, 8) { b"polygon".to_vec() } else { rng.pick(&trusted_list).clone() };
                    let origin_ok = w.model.trusted.contains(&origin);
                    let app_fails = with_data && rng.chance(1, 4);
                    if with_data {
                        let a = w.app.clone();
                        let fk = rng.below(2) as u32;
                        w.u.setup(move |env| {
                            let c = ProbeExecutableClient::new(env, &a);
                            c.set_fail(&app_fails);
                            c.set_fail_kind(&fk);
                        });
                    }
                    let data = if with_data { rng.bytes_of(&[1, 40]) } else { vec![] };
                    let source = rng.bytes_of(&[0, 20]);
                    // now and then the announced amount does not fit 127 bits: it must be refused, never
                    // credited in part
                    let too_big = rng.chance(1, 10);
                    let (amt_lo, amt_hi): (u128, u128) = if too_big {
                        *rng.pick(&[(amount.max(1) as u128, 1u128), (amount.max(1) as u128, 1 << 63), ((amount.max(1) as u128) | (1 << 127), 0), (amount.max(1) as u128, 1 << 127)])
                    } else {
                        (amount as u128, 0)
                    };
                    let payload = MHubMsg { to_hub: false, chain: origin.clone(), inner: MItsMsg::Transfer { token_id: t.id, source, dest: addr_bytes(&recipient), amount: amt_lo, amount_hi: amt_hi, data } }.encode();
                    let mid = w.fresh_id();
                    if !w.approve_for_its(HUB_CHAIN, &mid, &hub_addr, &payload) {
                        rep.foreign("honest-approval-refused");
                        alive = false;
                        break;
                    }
                    let refused = t.probe && probe_refuses;
                    let overflow = w.model.balance(&t.addr, &recipient).checked_add(amount).is_none();
                    if too_big {
                        rep.count("inbound-amount:beyond-127-bits");
                    }
                    let want: Option<bool> = if too_big || !origin_ok || app_fails || refused || overflow {
                        Some(false)
                    } else if t.lock && custody < amount {
                        Some(false)
                    } else if amount == 0 {
                        None
                    } else {
                        Some(true)
                    };
                    rep.step(format!("inbound {} amount={}({}) custody={} origin={:?} data={} app_fails={} want={:?}", t.label, amount, aclass, custody, lossy(&origin), with_data, app_fails, want));
                    let o = w.do_execute(HUB_CHAIN, &mid, &hub_addr, &payload);
                    rep.count("op:inbound");
                    rep.count(&format!("inbound-amount:{}", aclass));
                    rep.count(&format!("token:{}", t.label));
                    rep.eval("inbound", &format!("in|{}|{}|{}|{}|{}|{}", t.label, aclass, with_data, app_fails, origin_ok, o.ok()), true);
                    if let Some(l) = &o.leak {
                        rep.violation("failed-inbound-left-trace", l.clone());
                        alive = false;
                        break;
                    }
                    if window.is_some() && want == Some(true) && !o.ok() {
                        rep.count("note:valid-request-refused-while-migration-window-open");
                        continue;
                    }
                    if let Some(wnt) = want {
                        if o.ok() != wnt {
                            let why = if too_big {
                                "amount-beyond-127-bits"
                            } else if !origin_ok {
                                "untrusted-origin"
                            } else if app_fails {
                                "application-failed"
                            } else if t.lock && custody < amount {
                                "insufficient-custody"
                            } else if refused {
                                "token-refuses"
                            } else {
                                "valid"
                            };
                            if why == "untrusted-origin" && ctx.prop != "C04" {
                                rep.foreign("inbound-accepted:untrusted-origin");
                            } else {
                                rep.violation(&format!("inbound-{}:{}", if o.ok() { "accepted" } else { "refused" }, why), format!("inbound transfer of {} {} (custody {}): ok={} model {} ({}) {:?}", amount, t.label, custody, o.ok(), wnt, why, o.res.as_ref().err()));
                            }
                            alive = false;
                            break;
                        }
                    }
                    if !o.ok() {
                        continue;
                    }
                    w.g.model.apply_consume(&MMessage { source_chain: HUB_CHAIN.to_vec(), message_id: mid.clone(), source_address: hub_addr.clone(), contract: w.its_sc.clone(), payload_hash: keccak(&payload) });
                    w.model.add(&t.addr, &recipient, amount);
                    if t.lock {
                        let its = w.its.clone();
                        w.model.add(&t.addr, &its, -amount);
                    }
                    *received.entry(t.id).or_insert(0) += amount;
                    if executed_inbound.len() < 6 {
                        executed_inbound.push((mid.clone(), payload.clone()));
                    }
                    let recv: Vec<&Ev> = o.events.iter().filter(|e| e.contract == w.its_sc && e.kind() == "interchain_transfer_received").collect();
                    if recv.len() == 1 && mentions(recv[0], &sv_bytes(&t.id)) && mentions(recv[0], &sv_i128(amount)) {
                        rep.event("interchain_transfer_received");
                    } else {
                        rep.count("note:interchain_transfer_received-event-differs");
                    }
                }
                "redeliver-executed" => {
                    // an inbound transfer that took effect earlier, relayed and delivered once more,
                    // possibly a very long time later: it must not be credited again
                    if executed_inbound.is_empty() {
                        continue;
                    }
                    let (mid, payload) = executed_inbound[rng.usize(executed_inbound.len())].clone();
                    if rng.chance(1, 2) {
                        let d = if rng.chance(1, 2) { 2_500_000 } else { rng.ledger_jump() };
                        if w.u.advance(d) {
                            rep.step(format!("ledger advances by {}", d));
                            rep.count("advance-ledger");
                        }
                    }
                    let _ = w.approve_for_its(HUB_CHAIN, &mid, &hub_addr, &payload);
                    let o = w.do_execute(HUB_CHAIN, &mid, &hub_addr, &payload);
                    rep.count("op:redeliver-executed");
                    rep.eval("redeliver-executed", &format!("redeliver|{}", o.ok()), true);
                    rep.step(format!("redelivery of an executed inbound transfer -> ok={}", o.ok()));
                    if let Some(l) = &o.leak {
                        rep.violation("failed-inbound-left-trace", l.clone());
                        break;
                    }
                    if o.ok() {
                        rep.violation("inbound-credited-twice", "an inbound transfer that had already taken effect was executed again after its approval was relayed again".into());
                        break;
                    }
                }
                "trust-change" => {
                    let chain: Vec<u8> = match &scripted {
                        Some((_, c)) => c.clone(),
                        None => rng.pick(&[b"ethereum".to_vec(), b"Avalanche-Fuji".to_vec(), b"axelar".to_vec(), b"BSC".to_vec()]).clone(),
                    };
                    let now = w.model.trusted.contains(&chain);
                    // half of the removals are scripted: a valid transfer toward the chain, the
                    // removal, and the same transfer again with nothing in between
                    if scripted.is_none() && now && chain.as_slice() != HUB_CHAIN && rng.chance(1, 2) {
                        script.push_back(("outbound", chain.clone()));
                        script.push_back(("trust-change", chain.clone()));
                        script.push_back(("outbound", chain.clone()));
                        continue;
                    }
                    let owner = w.owner.clone();
                    let o = w.do_set_trusted(&chain, !now, Auth::Only(vec![owner]));
                    rep.count("op:trust-change");
                    rep.eval("trust-change", &format!("trust|{}|{}", !now, o.ok()), true);
                    rep.step(format!("trusted({:?}) := {} -> {:?}", lossy(&chain), !now, o.res));
                    if !o.ok() {
                        rep.foreign("trusted-chain-change-refused");
                        alive = false;
                        break;
                    }
                    if now {
                        w.model.trusted.remove(&chain);
                    } else {
                        w.model.trusted.insert(chain.clone());
                        w.model.ever_trusted.insert(chain);
                    }
                }
                "direct-burn" => {
                    if t.lock {
                        continue;
                    }
                    let have = w.model.balance(&t.addr, &user);
                    let amount = if have > 0 { 1 + rng.below(have.min(1 << 62) as u64) as i128 } else { 1 };
                    let (ta, us) = (t.addr.clone(), user.clone());
                    let o = w.u.call(Auth::Only(vec![user.clone()]), &move |env: &Env| flat(InterchainTokenClient::new(env, &ta).try_burn(&us, &amount)));
                    rep.count("op:direct-burn");
                    rep.eval("direct-burn", &format!("burn|{}|{}", have >= amount, o.ok()), true);
                    rep.step(format!("direct burn of {} {} by a holder -> {:?}", amount, t.label, o.res));
                    if o.ok() != (have >= amount) {
                        rep.foreign("token-burn-rule");
                        alive = false;
                        break;
                    }
                    if o.ok() {
                        w.model.add(&t.addr, &user, -amount);
                        *direct.entry(t.id).or_insert(0) -= amount;
                    }
                }
                _ => {
                    // the designated minter of native-B mints
                    let tb = toks[1].clone();
                    let amount = 1 + rng.below(500) as i128;
                    let (ta, mi, to) = (tb.addr.clone(), users[1].clone(), user.clone());
                    let o = w.u.call(Auth::Only(vec![users[1].clone()]), &move |env: &Env| flat(InterchainTokenClient::new(env, &ta).try_mint_from(&mi, &to, &amount)));
                    rep.count("op:minter-mint");
                    rep.eval("minter-mint", &format!("mint|{}", o.ok()), true);
                    rep.step(format!("designated minter mints {} native-B -> {:?}", amount, o.res));
                    if !o.ok() {
                        rep.foreign("token-mint-rule");
                        alive = false;
                        break;
                    }
                    w.model.add(&tb.addr, &user, amount);
                    *direct.entry(tb.id).or_insert(0) += amount;
                }
            }
            if let Some(d) = w.check_balances() {
                rep.violation(&format!("balance-mismatch-after:{}", op), d);
                alive = false;
            }
        }
        if !alive {
            continue;
        }
        // ------------------------------------------------------------ offline conservation
        for t in &toks {
            let s = *sent.get(&t.id).unwrap_or(&0);
            let r = *received.get(&t.id).unwrap_or(&0);
            if t.lock {
                let custody = balance(&mut w.u, &t.addr, &w.its.clone());
                if custody != s - r || custody < 0 {
                    rep.violation("custody-conservation", format!("{}: custody {} != locked {} - released {}", t.label, custody, s, r));
                }
            } else {
                let mut sum = 0i128;
                for h in &holders {
                    sum += balance(&mut w.u, &t.addr, h);
                }
                let want = initial_supply[&t.id] + *direct.get(&t.id).unwrap_or(&0) - s + r;
                if sum != want {
                    rep.violation("supply-conservation", format!("{}: sum of balances {} != initial + minter mints - holder burns - sent + received = {}", t.label, sum, want));
                }
            }
            rep.count("offline-conservation-checked");
        }
    }
    let mut req: Vec<String> = OPS.iter().map(|o| format!("op:{}", o)).collect();
    req.extend(AMOUNTS.iter().map(|o| format!("amount:{}", o)));
    req.extend(GAS.iter().map(|o| format!("gas:{}", o)));
    req.extend(DESTS.iter().map(|o| format!("dest:{}", o)));
    for l in ["native-A", "native-B", "canonical-sac", "canonical-interchain-token", "canonical-probe"] {
        req.push(format!("token:{}", l));
    }
    req.push("offline-conservation-checked".into());
    req.push("gas-token:same-as-transferred".into());
    req.push("outbound-unknown-token".into());
    req.push("inbound-amount:beyond-127-bits".into());
    rep.notes.insert("required".into(), json!(req));
    rep.notes.insert("token_mode".into(), json!("native"));
    rep.notes.insert("rule".into(), json!("universes of 36 operations over 2 service-deployed tokens (tree code; one with initial supply, one with a designated minter), 3 registered canonical tokens (asset contract, stand-alone interchain token, probe token that can refuse), 4 users: outbound transfers with amount in {0, -1, 1, balance, balance+1, random}, gas in {0, -1, 1, all the payer has, one more}, destination in {trusted, never trusted, removed, hub chain}, with/without data, gas sometimes paid in the transferred token itself; approved inbound transfers (1, exact custody, custody+1, random, 0; with/without data to a destination application that may fail; origin trusted or not); trusted-chain changes; holders' own burns; the designated minter's mints. All balances of all holders (users, service, gas service, application) are compared with the model after every operation; the announced contract_called event is compared with the independent ABI encoding of exactly what was taken, the gas_paid event with that payload's hash and the stated gas; at the end custody = locked - released per canonical token and sum of balances = initial + mints - burns - sent + received per service-deployed token. distinct = (direction, token, amount class, gas class, destination class, outcome)"));
}
