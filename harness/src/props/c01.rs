//! C01 — approvals need threshold-weight signatures from a live signer set.
//! Three-valued reference verifier over crafted proofs; validity of every signature is known by
//! construction; digests, XDR and Keccak are computed independently of the contract.

use crate::gw::*;
use crate::oracle::*;
use crate::report::Report;
use crate::rng::Rng;
use crate::univ::*;
use crate::Ctx;
use serde_json::json;
use soroban_sdk::Address;

pub const CLASSES: &[&str] = &[
    "honest-all",
    "honest-subset",
    "honest-exact",
    "honest-old-retained",
    "one-short",
    "sig-other-domain",
    "sig-other-command",
    "sig-other-batch",
    "sig-other-set",
    "wrong-key",
    "bitflip",
    "extra-invalid",
    "random-mix",
    "unsigned-then-garbage",
    "valid-short-then-garbage",
    "decl-dropped",
    "decl-added",
    "decl-duplicated",
    "decl-swapped",
    "decl-weight",
    "decl-threshold",
    "decl-nonce",
    "never-installed",
    "beyond-retention",
    "cross-gateway",
    "empty-batch",
    "resubmit-earlier-accepted",
    "known-batch-forged-proof",
];

pub struct World {
    pub u: U,
    pub ring: KeyRing,
    pub g: Gw,
    pub g2: Option<Gw>,
    pub apps: Vec<Address>,
    pub msg_ctr: u64,
}

pub fn fresh_msg(w: &mut World, rng: &mut Rng) -> MMessage {
    w.msg_ctr += 1;
    let chains: [&[u8]; 3] = [b"ethereum", b"avalanche", b"x"];
    MMessage {
        source_chain: rng.pick(&chains).to_vec(),
        message_id: format!("0x{:x}-{}", rng.next_u64(), w.msg_ctr).into_bytes(),
        source_address: format!("0x{}", hex(&rng.bytes(20))).into_bytes(),
        contract: sc_addr(&w.apps[rng.usize(w.apps.len())]),
        payload_hash: rng.bytes32(),
    }
}

pub fn build_world(rng: &mut Rng, retentions: &[u64], max_signers: usize, max_rot: u64) -> Option<World> {
    let mut u = U::new();
    let mut ring = KeyRing::default();
    let owner = u.principal();
    let operator = u.principal();
    let retention = *rng.pick(retentions);
    let n_init = 1 + rng.usize(3);
    let initial: Vec<MSigners> = (0..n_init)
        .map(|_| gen_wellformed_set(rng, &mut ring, max_signers))
        .collect();
    let domain = rng.bytes32();
    let mut g = Gw::deploy(&mut u, &owner, &operator, domain, 0, retention, &initial);
    let g2 = if rng.chance(1, 3) {
        Some(Gw::deploy(&mut u, &owner, &operator, rng.bytes32(), 0, retention, &initial))
    } else {
        None
    };
    let rotations = rng.below(max_rot + 1);
    for _ in 0..rotations {
        let cand = gen_wellformed_set(rng, &mut ring, max_signers);
        if !g.rotate_honest(&mut u, &ring, &cand) {
            return None;
        }
    }
    let apps = (0..3).map(|_| u.principal()).collect();
    Some(World {
        u,
        ring,
        g,
        g2,
        apps,
        msg_ctr: 0,
    })
}

fn flip(sig: &[u8; 64], rng: &mut Rng) -> [u8; 64] {
    let mut s = *sig;
    let bit = rng.usize(512);
    s[bit / 8] ^= 1 << (bit % 8);
    s
}

/// Sign every slot in `signing` of `declared` with the slot's own key over `digest`; mark the
/// result valid only if `digest` is the right one for (domain, declared, data_hash).
fn sign_plan(
    ring: &KeyRing,
    declared: &MSigners,
    digest: &[u8; 32],
    right_digest: &[u8; 32],
    signing: &[usize],
    desc: String,
) -> ProofPlan {
    let slots = declared
        .signers
        .iter()
        .enumerate()
        .map(|(i, s)| {
            if !signing.contains(&i) {
                return SlotSig::None;
            }
            match ring.get(&s.key) {
                Some(kp) => {
                    let sg = kp.sign(digest);
                    if digest == right_digest {
                        SlotSig::Valid(sg)
                    } else {
                        SlotSig::Invalid(sg)
                    }
                }
                None => SlotSig::None,
            }
        })
        .collect();
    ProofPlan {
        declared: declared.clone(),
        slots,
        desc,
    }
}

/// Retained installed sets (indices) and expired ones.
fn partition_sets(m: &GwModel) -> (Vec<usize>, Vec<usize>) {
    let mut live = Vec::new();
    let mut dead = Vec::new();
    for i in 0..m.sets.len() {
        if m.epoch() - (i as u64 + 1) <= m.retention {
            live.push(i);
        } else {
            dead.push(i);
        }
    }
    (live, dead)
}

/// Build a submission of class `class` for data hash `dh` (other data for the wrong-digest
/// classes is derived here). Returns None when the class is not constructible in this world.
pub fn craft(
    w: &mut World,
    rng: &mut Rng,
    class: &str,
    dh: &[u8; 32],
    alt_dh: &[u8; 32],
) -> Option<ProofPlan> {
    let m = w.g.model.clone();
    let (live, dead) = partition_sets(&m);
    let newest = m.sets.len() - 1;
    let ti = if rng.chance(2, 3) { newest } else { *rng.pick(&live) };
    let set = m.sets[ti].clone();
    let right = digest_for(&m.domain, &set, dh);
    let n = set.signers.len();
    let total = set.total_weight().unwrap();
    Some(match class {
        "honest-all" => plan_honest(&w.ring, &m.domain, &set, dh, &all_slots(&set)),
        "honest-subset" => {
            let sub = sufficient_subset(rng, &set);
            plan_honest(&w.ring, &m.domain, &set, dh, &sub)
        }
        "honest-exact" => {
            // a minimal sufficient subset; prefer one whose weight equals the threshold exactly
            let mut best: Option<Vec<usize>> = None;
            for _ in 0..8 {
                let mut idx = all_slots(&set);
                rng.shuffle(&mut idx);
                let mut acc = 0u128;
                let mut sub = Vec::new();
                for i in idx {
                    if acc >= set.threshold {
                        break;
                    }
                    acc = acc.saturating_add(set.signers[i].weight);
                    sub.push(i);
                }
                if acc == set.threshold {
                    best = Some(sub);
                    break;
                }
                if best.is_none() {
                    best = Some(sub);
                }
            }
            let mut sub = best.unwrap();
            sub.sort();
            let mut p = plan_honest(&w.ring, &m.domain, &set, dh, &sub);
            p.desc = format!("minimal{:?}", sub);
            p
        }
        "honest-old-retained" => {
            let olds: Vec<usize> = live.iter().cloned().filter(|i| *i != newest).collect();
            if olds.is_empty() {
                return None;
            }
            let s = m.sets[*rng.pick(&olds)].clone();
            let sub = sufficient_subset(rng, &s);
            plan_honest(&w.ring, &m.domain, &s, dh, &sub)
        }
        "one-short" => {
            let sub = one_short_subset(rng, &set);
            let mut p = plan_honest(&w.ring, &m.domain, &set, dh, &sub);
            p.desc = format!("one-short{:?}", sub);
            p
        }
        "sig-other-domain" => {
            let other = match &w.g2 {
                Some(g2) if rng.chance(1, 2) => g2.model.domain,
                _ => rng.bytes32(),
            };
            let d = digest_for(&other, &set, dh);
            sign_plan(&w.ring, &set, &d, &right, &all_slots(&set), "other-domain".into())
        }
        "sig-other-command" | "sig-other-batch" => {
            let d = digest_for(&m.domain, &set, alt_dh);
            if d == right {
                return None;
            }
            sign_plan(&w.ring, &set, &d, &right, &all_slots(&set), class.into())
        }
        "sig-other-set" => {
            let other = if m.sets.len() > 1 {
                let mut j = rng.usize(m.sets.len());
                if j == ti {
                    j = (j + 1) % m.sets.len();
                }
                m.sets[j].clone()
            } else {
                gen_wellformed_set(rng, &mut w.ring, 3)
            };
            let d = proof_digest(&m.domain, &other.hash(), dh);
            sign_plan(&w.ring, &set, &d, &right, &all_slots(&set), "other-set".into())
        }
        "wrong-key" | "bitflip" => {
            // minimal sufficient subset, then spoil one needed slot
            let mut sub = one_short_subset(rng, &set);
            let missing: Vec<usize> = all_slots(&set).into_iter().filter(|i| !sub.contains(i)).collect();
            // add back members until sufficient again, remember the last added as "needed"
            let mut acc: u128 = sub.iter().fold(0u128, |a, j| a.saturating_add(set.signers[*j].weight));
            let mut needed = None;
            for i in missing {
                if acc >= set.threshold {
                    break;
                }
                acc = acc.saturating_add(set.signers[i].weight);
                sub.push(i);
                needed = Some(i);
            }
            let needed = needed?;
            let mut p = plan_honest(&w.ring, &m.domain, &set, dh, &sub);
            let bad = if class == "bitflip" {
                match &p.slots[needed] {
                    SlotSig::Valid(s) => flip(s, rng),
                    _ => return None,
                }
            } else {
                // another member's key, or an outsider's
                let other_pk = if n > 1 && rng.chance(1, 2) {
                    set.signers[(needed + 1 + rng.usize(n - 1)) % n].key
                } else {
                    w.ring.gen(rng)
                };
                w.ring.get(&other_pk).unwrap().sign(&right)
            };
            p.slots[needed] = SlotSig::Invalid(bad);
            p.desc = format!("{}@{} of {:?}", class, needed, sub);
            p
        }
        "extra-invalid" => {
            if n < 2 {
                return None;
            }
            let mut p = plan_honest(&w.ring, &m.domain, &set, dh, &all_slots(&set));
            let k = rng.usize(n);
            if let SlotSig::Valid(s) = &p.slots[k] {
                p.slots[k] = SlotSig::Invalid(flip(s, rng));
            }
            p.desc = format!("all-signed,slot{}-invalid", k);
            p
        }
        "random-mix" => {
            // every slot independently unsigned / valid / invalid (garbage, wrong key, wrong digest)
            let pu = rng.below(4);
            let pi = rng.below(4);
            let mut p = plan_honest(&w.ring, &m.domain, &set, dh, &all_slots(&set));
            for k in 0..n {
                let r = rng.below(4 + pu + pi);
                if r < 1 + pu {
                    p.slots[k] = SlotSig::None;
                } else if r < 1 + pu + 1 + pi {
                    let bad: [u8; 64] = match rng.below(3) {
                        0 => {
                            let mut g = [0u8; 64];
                            g.copy_from_slice(&rng.bytes(64));
                            g
                        }
                        1 => {
                            let pk = w.ring.gen(rng);
                            w.ring.get(&pk).unwrap().sign(&right)
                        }
                        _ => w.ring.get(&set.signers[k].key).unwrap().sign(&rng.bytes32()),
                    };
                    p.slots[k] = SlotSig::Invalid(bad);
                }
            }
            p.desc = format!(
                "mix[{}]",
                p.slots.iter().map(|s| match s { SlotSig::None => 'u', SlotSig::Valid(_) => 'v', SlotSig::Invalid(_) => 'x' }).collect::<String>()
            );
            p
        }
        "unsigned-then-garbage" | "valid-short-then-garbage" => {
            // a leading run (unsigned, or validly signed but below the threshold) followed by
            // slots carrying garbage: no valid weight reaches the threshold
            if n < 2 {
                return None;
            }
            let mut p = plan_honest(&w.ring, &m.domain, &set, dh, &[]);
            let split = 1 + rng.usize(n - 1);
            let mut valid_w = 0u128;
            for k in 0..n {
                if k < split {
                    if class == "valid-short-then-garbage" {
                        let wk = set.signers[k].weight;
                        if valid_w.saturating_add(wk) < set.threshold && rng.chance(1, 2) {
                            valid_w += wk;
                            p.slots[k] = SlotSig::Valid(w.ring.get(&set.signers[k].key).unwrap().sign(&right));
                        }
                    }
                } else {
                    let mut g = [0u8; 64];
                    g.copy_from_slice(&rng.bytes(64));
                    p.slots[k] = SlotSig::Invalid(g);
                }
            }
            p.desc = format!(
                "{}[{}]",
                class,
                p.slots.iter().map(|s| match s { SlotSig::None => 'u', SlotSig::Valid(_) => 'v', SlotSig::Invalid(_) => 'x' }).collect::<String>()
            );
            p
        }
        "decl-dropped" | "decl-added" | "decl-duplicated" | "decl-swapped" | "decl-weight"
        | "decl-threshold" | "decl-nonce" => {
            let mut d = set.clone();
            let mut signing = all_slots(&set);
            match class {
                "decl-dropped" => {
                    if n < 2 {
                        return None;
                    }
                    d.signers.remove(rng.usize(n));
                    signing = all_slots(&d);
                }
                "decl-added" => {
                    let pk = w.ring.gen(rng);
                    d.signers.push(MSigner {
                        key: pk,
                        weight: if rng.chance(1, 2) { 1 } else { total },
                    });
                    d.signers.sort_by(|a, b| a.key.cmp(&b.key));
                    signing = all_slots(&d);
                }
                "decl-duplicated" => {
                    let k = rng.usize(n);
                    let dup = d.signers[k].clone();
                    d.signers.insert(k, dup);
                    signing = all_slots(&d);
                }
                "decl-swapped" => {
                    if n < 2 {
                        return None;
                    }
                    let k = rng.usize(n - 1);
                    d.signers.swap(k, k + 1);
                }
                "decl-weight" => {
                    let k = rng.usize(n);
                    d.signers[k].weight = if rng.chance(1, 2) {
                        d.signers[k].weight.wrapping_add(1).max(1)
                    } else {
                        set.threshold
                    };
                    if d == set {
                        return None;
                    }
                }
                "decl-threshold" => {
                    // a minority declares the threshold it can reach
                    let sub = one_short_subset(rng, &set);
                    let wsum: u128 = sub.iter().fold(0u128, |a, j| a.saturating_add(set.signers[*j].weight));
                    d.threshold = if wsum == 0 { 0 } else { wsum };
                    if d.threshold == set.threshold {
                        return None;
                    }
                    signing = if sub.is_empty() { all_slots(&set) } else { sub };
                }
                _ => {
                    d.nonce = rng.bytes32();
                }
            }
            // either keep the signatures of the true set (relay tampering) or re-sign the
            // tampered declaration with the real keys (colluding signers)
            let dd = if rng.chance(1, 2) {
                digest_for(&m.domain, &d, dh)
            } else {
                right
            };
            let right_for_decl = digest_for(&m.domain, &d, dh);
            sign_plan(&w.ring, &d, &dd, &right_for_decl, &signing, class.into())
        }
        "never-installed" => {
            let s = gen_wellformed_set(rng, &mut w.ring, 4);
            plan_honest(&w.ring, &m.domain, &s, dh, &all_slots(&s))
        }
        "beyond-retention" => {
            if dead.is_empty() {
                return None;
            }
            let s = m.sets[*rng.pick(&dead)].clone();
            plan_honest(&w.ring, &m.domain, &s, dh, &all_slots(&s))
        }
        "cross-gateway" => {
            let g2 = w.g2.as_ref()?;
            // only meaningful if the set is installed (and live) on both
            if g2.model.epoch_of(&set).is_none() {
                return None;
            }
            let d = digest_for(&g2.model.domain, &set, dh);
            sign_plan(&w.ring, &set, &d, &right, &all_slots(&set), "made-for-other-gateway".into())
        }
        "empty-batch" => plan_honest(&w.ring, &m.domain, &set, dh, &all_slots(&set)),
        _ => return None,
    })
}

fn own(reason: &str, prop: &str) -> bool {
    match reason {
        "retention" => prop == "C01" || prop == "C08",
        _ => prop == "C01",
    }
}

pub fn run(ctx: &Ctx, rep: &mut Report) {
    let total = ctx.universes(2400, 200000);
    let per_universe = 36;
    let mut seen_classes = std::collections::BTreeSet::new();
    for uni in ctx.my_universes(total) {
        let mut rng = ctx.rng_for(uni);
        rep.begin_universe(uni);
        if uni == 0 {
            // once per run: the history recorded under the pinned version, continued by the current code
            crate::legacy::run(rep, "C01");
        }
        let retentions: &[u64] = &[0, 1, 2, 5, u64::MAX];
        let max_signers = if rng.chance(1, 10) { 40 } else { 8 };
        let mut w = match build_world(&mut rng, retentions, max_signers, 6) {
            Some(w) => w,
            None => {
                rep.foreign("setup-rotation-refused");
                continue;
            }
        };
        rep.step(format!(
            "world: retention={} epoch={} second_gateway={}",
            w.g.model.retention,
            w.g.model.epoch(),
            w.g2.is_some()
        ));
        // stratified: every class once per universe in random order, then random extras
        let mut order: Vec<&str> = CLASSES.to_vec();
        rng.shuffle(&mut order);
        while order.len() < per_universe {
            order.push(CLASSES[rng.usize(CLASSES.len())]);
        }
        let mut accepted: Vec<(bool, [u8; 32], Vec<MMessage>, ProofPlan)> = Vec::new();
        let mut window = false;
        for class in order {
            // the history goes on between submissions: time passes, now and then the signers rotate
            if rng.chance(1, 9) {
                let d = rng.ledger_jump();
                if w.u.advance(d) {
                    rep.step(format!("ledger advances by {}", d));
                    rep.count("advance-ledger");
                }
            }
            // the owner upgrades (to the same code) and migrates: nothing the gateway knows may change
            // (the migration follows a few submissions after the upgrade: meanwhile an honest
            // submission may be refused, but nothing that must fail may be accepted)
            if !window && rng.chance(1, 25) {
                let ga = w.g.addr.clone();
                if w.u.upgrade_only(&ga).is_ok() {
                    window = true;
                    rep.count("migration-window-opened");
                    rep.step("the gateway is upgraded to the same code: the migration window opens".into());
                }
            } else if window && rng.chance(1, 3) {
                let ga = w.g.addr.clone();
                let _ = w.u.migrate_only(&ga, &[]);
                window = false;
                rep.count("upgrade-and-migrate");
                rep.step("migration: the window closes".into());
            }
            if rng.chance(1, 7) {
                let cand = gen_wellformed_set(&mut rng, &mut w.ring, max_signers);
                let ok = {
                    let World { u, ring, g, .. } = &mut w;
                    g.rotate_honest(u, ring, &cand)
                };
                rep.step(format!("rotation to epoch {} (honest)", w.g.model.epoch()));
                rep.count("mid-history-rotation");
                if !ok && window {
                    rep.count("note:valid-request-refused-while-migration-window-open");
                    break;
                }
                if !ok {
                    rep.foreign("mid-history-rotation-refused");
                    break;
                }
            }
            if class == "known-batch-forged-proof" {
                // a batch that is already approved, submitted again with a proof that proves nothing
                let earlier: Vec<Vec<MMessage>> = accepted.iter().filter(|a| !a.0 && !a.2.is_empty()).map(|a| a.2.clone()).collect();
                if earlier.is_empty() {
                    continue;
                }
                let msgs = rng.pick(&earlier).clone();
                let dh = approve_data_hash(&msgs);
                let m = w.g.model.clone();
                let plan = match rng.below(3) {
                    0 => {
                        let s = gen_wellformed_set(&mut rng, &mut w.ring, 3);
                        plan_honest(&w.ring, &m.domain, &s, &dh, &all_slots(&s))
                    }
                    1 => {
                        let s = m.sets.last().unwrap().clone();
                        let sub = one_short_subset(&mut rng, &s);
                        plan_honest(&w.ring, &m.domain, &s, &dh, &sub)
                    }
                    _ => {
                        let s = m.sets.last().unwrap().clone();
                        plan_honest(&w.ring, &m.domain, &s, &dh, &[])
                    }
                };
                let expect = w.g.model.expect_approve(&msgs, &plan);
                rep.step(format!("known batch with forged proof ({}) expect={:?}", plan.desc, expect));
                let o = w.g.do_approve(&mut w.u, &msgs, &plan);
                seen_classes.insert(class);
                rep.eval(class, &format!("known-forged|{:?}|{}", expect, o.ok()), true);
                if o.leak.is_some() {
                    rep.violation("rejected-submission-left-trace:known-batch-forged-proof", o.leak.clone().unwrap());
                    break;
                }
                if let (Must::Fail(r), true) = (&expect, o.ok()) {
                    if own(r, &ctx.prop) {
                        rep.violation(&format!("accepted:known-batch-forged-proof:{}", r), format!("an already approved batch was accepted again with a proof that must fail: {}", r));
                    }
                    break;
                }
                continue;
            }
            if class == "resubmit-earlier-accepted" {
                // byte-identical resubmission of something accepted earlier in this history
                if accepted.is_empty() {
                    continue;
                }
                let (standalone, dh, msgs, plan) = accepted[rng.usize(accepted.len())].clone();
                let expect = if standalone { w.g.model.expect_proof(&plan) } else { w.g.model.expect_approve(&msgs, &plan) };
                let gap = w.g.model.epoch_of(&plan.declared).map(|e| w.g.model.epoch() - e);
                rep.step(format!("resubmit identical {} gap={:?} expect={:?}", if standalone { "validate_proof" } else { "approve_messages" }, gap, expect));
                let (ok, leak, events) = if standalone {
                    let o = w.g.do_validate_proof(&mut w.u, &dh, &plan);
                    (o.ok(), o.leak.clone(), o.events.clone())
                } else {
                    let o = w.g.do_approve(&mut w.u, &msgs, &plan);
                    (o.ok(), o.leak.clone(), o.events.clone())
                };
                seen_classes.insert(class);
                rep.eval(class, &format!("resubmit|{}|{:?}|{}|gap={:?}", standalone, expect, ok, gap), true);
                if leak.is_some() {
                    rep.violation("rejected-submission-left-trace:resubmit-earlier-accepted", leak.unwrap());
                    break;
                }
                match (&expect, ok) {
                    (Must::Fail(r), true) => {
                        if own(r, &ctx.prop) {
                            rep.violation(&format!("accepted:resubmit-earlier-accepted:{}", r), format!("a proof that was accepted earlier is accepted again although the model says it must now fail: {}", r));
                        }
                        break;
                    }
                    (Must::Succeed, false) if window => {
                        rep.count("note:valid-request-refused-while-migration-window-open");
                    }
                    (Must::Succeed, false) => {
                        rep.violation("refused:resubmit-earlier-accepted", "an identical, still valid proof was refused the second time".into());
                        break;
                    }
                    _ => {}
                }
                if ok && !standalone && events.iter().any(|e| e.contract == w.g.sc && e.kind() == "message_approved") && ctx.prop == "C02" {
                    rep.violation("resubmission-announced-again", "message_approved emitted for a resubmitted batch".into());
                }
                continue;
            }
            let standalone = class != "empty-batch"
                && class != "sig-other-batch"
                && class != "sig-other-command"
                && rng.chance(1, 5);
            // the batch / data hash
            let nmsg = if class == "empty-batch" { 0 } else { 1 + rng.usize(4) };
            let msgs: Vec<MMessage> = (0..nmsg).map(|_| fresh_msg(&mut w, &mut rng)).collect();
            let dh = if standalone { rng.bytes32() } else { approve_data_hash(&msgs) };
            let alt_dh = match class {
                "sig-other-command" => {
                    // same batch, RotateSigners tag; or a rotation hash of an installed set
                    if rng.chance(1, 2) {
                        keccak(&xdr_of(&sv_vec(vec![
                            sv_enum("RotateSigners", vec![]),
                            sv_vec(msgs.iter().map(|m| m.to_scval()).collect()),
                        ])))
                    } else {
                        w.g.model.sets[rng.usize(w.g.model.sets.len())].rotation_data_hash()
                    }
                }
                "sig-other-batch" => {
                    let mut other = msgs.clone();
                    match rng.below(4) {
                        0 => {
                            let k = rng.usize(other.len());
                            other[k].payload_hash[rng.usize(32)] ^= 1 << rng.usize(8);
                        }
                        1 if other.len() >= 2 => other.swap(0, 1),
                        2 if other.len() >= 2 => {
                            other.pop();
                        }
                        1 | 2 => {
                            let k = rng.usize(other.len());
                            other[k].contract = sc_addr(&w.apps[(rng.usize(2) + 1) % 3]);
                            if other == msgs {
                                other[k].message_id.push(b'x');
                            }
                        }
                        _ => other.push(fresh_msg(&mut w, &mut rng)),
                    }
                    approve_data_hash(&other)
                }
                _ => [0u8; 32],
            };
            let plan = match craft(&mut w, &mut rng, class, &dh, &alt_dh) {
                Some(p) => p,
                None => continue,
            };
            seen_classes.insert(class);
            let expect = if standalone {
                w.g.model.expect_proof(&plan)
            } else {
                w.g.model.expect_approve(&msgs, &plan)
            };
            let epoch_gap = w.g.model.epoch_of(&plan.declared).map(|e| w.g.model.epoch() - e);
            rep.step(format!(
                "{} {} plan={} n={} thr={} gap={:?} expect={:?}",
                if standalone { "validate_proof" } else { "approve_messages" },
                class,
                plan.desc,
                plan.declared.signers.len(),
                plan.declared.threshold,
                epoch_gap,
                expect
            ));
            let (ok, leak, events, ret) = if standalone {
                let o = w.g.do_validate_proof(&mut w.u, &dh, &plan);
                (o.ok(), o.leak.clone(), o.events.clone(), o.res.clone().ok())
            } else {
                let o = w.g.do_approve(&mut w.u, &msgs, &plan);
                (o.ok(), o.leak.clone(), o.events.clone(), None)
            };
            let sig = format!(
                "{}|{}|{:?}|ok={}|n={}|ret={}|gap={:?}",
                class,
                standalone,
                expect,
                ok,
                plan.declared.signers.len().min(9),
                w.g.model.retention,
                epoch_gap
            );
            rep.eval(class, &sig, true);
            if rep.samples.len() < 4 && rng.chance(1, 20) {
                rep.sample(json!({"class": class, "standalone": standalone, "plan": plan.desc,
                    "signers": plan.declared.signers.len(), "threshold": plan.declared.threshold.to_string(),
                    "expect": format!("{:?}", expect), "accepted": ok}));
            }
            if let Some(l) = leak {
                if ctx.prop == "C01" {
                    rep.violation(&format!("rejected-submission-left-trace:{}", class), l);
                }
                break;
            }
            let mut diverged = false;
            match (&expect, ok) {
                (Must::Fail(r), true) => {
                    if own(r, &ctx.prop) {
                        rep.violation(
                            &format!("accepted:{}:{}", class, r),
                            format!("submission of class {} ({}) accepted; model says it must fail: {}", class, plan.desc, r),
                        );
                    } else {
                        rep.foreign(&format!("accepted:{}", r));
                    }
                    diverged = true;
                }
                (Must::Succeed, false) if window => {
                    rep.count("note:valid-request-refused-while-migration-window-open");
                    continue;
                }
                (Must::Succeed, false) => {
                    let r = if epoch_gap.unwrap_or(0) > 0 { "retention" } else { "honest" };
                    if own(r, &ctx.prop) {
                        rep.violation(
                            &format!("refused:{}", class),
                            format!("honest submission of class {} ({}) refused", class, plan.desc),
                        );
                    } else {
                        rep.foreign("refused-honest");
                    }
                    diverged = true;
                }
                _ => {}
            }
            if diverged {
                break;
            }
            if ok && accepted.len() < 12 {
                accepted.push((standalone, dh, msgs.clone(), plan.clone()));
            }
            if ok {
                if standalone {
                    let want = w.g.model.is_latest(&plan);
                    if ret != Some(want) {
                        // the returned flag is not part of the statement; its consequences
                        // (who may rotate) are checked by C03 / C08
                        rep.count("note:validate_proof-flag-differs-from-newest");
                    }
                    if !events.is_empty() && ctx.prop == "C01" {
                        rep.violation("validate_proof-emitted-events", format!("{:?}", events));
                    }
                } else {
                    let newly = w.g.model.apply_approve(&msgs);
                    let want: Vec<Ev> = newly.iter().map(|m| w.g.ev_approved(m)).collect();
                    let got: Vec<Ev> = events
                        .iter()
                        .filter(|e| e.contract == w.g.sc && e.kind() == "message_approved")
                        .cloned()
                        .collect();
                    for e in &got {
                        rep.event(&e.kind());
                    }
                    if got != want && ctx.prop == "C01" {
                        rep.violation(
                            "approval-events-differ",
                            format!("got {} message_approved events, want {}", got.len(), want.len()),
                        );
                        break;
                    }
                    for m in &msgs {
                        if let Some(d) = w.g.check_status(&mut w.u, m) {
                            if ctx.prop == "C01" {
                                rep.violation("approved-message-not-queryable", d);
                            }
                            diverged = true;
                        }
                    }
                    if diverged {
                        break;
                    }
                }
            } else if !standalone {
                // a refused batch must not have approved anything
                for m in &msgs {
                    if let Some(d) = w.g.check_status(&mut w.u, m) {
                        if ctx.prop == "C01" {
                            rep.violation("refused-batch-approved-something", d);
                        }
                        diverged = true;
                    }
                }
                if diverged {
                    break;
                }
            }
        }
        // the same proofs made for the second gateway work there (domain binding is not
        // "reject everything")
        if let Some(g2) = w.g2.as_ref() {
            let set = g2.model.sets.last().unwrap().clone();
            let m1 = fresh_msg(&mut w, &mut rng);
            let g2 = w.g2.as_ref().unwrap();
            let plan = plan_honest(&w.ring, &g2.model.domain, &set, &approve_data_hash(&[m1.clone()]), &all_slots(&set));
            let o = g2.do_approve(&mut w.u, &[m1], &plan);
            rep.eval("second-gateway-honest", &format!("g2-honest|{}", o.ok()), true);
            if !o.ok() && ctx.prop == "C01" {
                rep.violation("refused:second-gateway-honest", "honest proof for second gateway refused".into());
            }
        }
    }
    let mut req: Vec<String> = CLASSES.iter().map(|c| c.to_string()).collect();
    req.push("advance-ledger".into());
    req.push("mid-history-rotation".into());
    rep.notes.insert("required".into(), json!(req));
    rep.notes.insert("rule".into(), json!("per universe: gateway with retention in {0,1,2,5}, 1-3 initial sets, 0-6 honest rotations, optionally a second gateway with another domain separator and the same sets; 34 submissions (approve_messages or standalone validate_proof) interleaved with further honest rotations, every one of 28 classes at least once per universe (honest all/subset/exact-threshold/old-retained; one-short; signatures over another domain/command/batch/set; wrong key; bit flip; extra invalid signature; every slot independently unsigned/valid/invalid; unsigned or insufficient valid prefix followed by garbage signatures; declared set with dropped/added/duplicated/swapped signer, changed weight/threshold/nonce, kept or re-signed; never installed; beyond retention; cross-gateway replay; empty batch; byte-identical resubmission of a submission accepted earlier in the same history, possibly after its signer set left the retention window; an already approved batch with a proof by a never-installed set, one signer short, or unsigned); distinct = (class, entry point, expectation, outcome, signer count, retention, epoch gap)"));
    rep.notes.insert(
        "classes_seen".into(),
        json!(seen_classes.iter().collect::<Vec<_>>()),
    );
}
