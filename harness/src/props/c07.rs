//! C07 — no spending, burning, sending or consuming for an address without its authorisation.
//! Same engine as C06 on the user-facing entry points: the forest the code asks for is recorded
//! and replayed signed by the named address, its counterparty, the contract owner, a stranger,
//! nobody, or by the named address for other arguments; plus the contract-as-caller variant.

use crate::gw::*;
use crate::its::*;
use crate::oracle::*;
use crate::probes::proxy::{Proxy, ProxyClient};
use crate::probes::target::ProbeTarget;
use crate::props::c06::Call;
use crate::report::Report;
use crate::rng::Rng;
use crate::tok::*;
use crate::univ::*;
use crate::Ctx;
use axelar_gas_service::{AxelarGasService, AxelarGasServiceClient};
use axelar_gateway::AxelarGatewayClient;
use axelar_operators::{AxelarOperators, AxelarOperatorsClient};
use axelar_soroban_std::types::Token;
use example::{Example, ExampleClient};
use interchain_token::{InterchainToken, InterchainTokenClient};
use serde_json::json;
use soroban_sdk::{Address, BytesN, Env, IntoVal, Symbol, Val, Vec as SVec};
use std::rc::Rc;

struct Ep {
    /// false: the call is not valid for anybody in this state (e.g. no allowance was granted):
    /// even the named address's own authorisation must not make it succeed
    valid: bool,
    name: &'static str,
    named: Address,
    counterparty: Option<Address>,
    owner: Option<Address>,
    call: Call,
    /// the same call with one argument changed each (authorisations recorded for these must not
    /// open the real call)
    other_args: Vec<Call>,
}

fn one(c: Call) -> Vec<Call> {
    vec![c]
}

/// The same call with the argument at one position replaced, one call per (position, value):
/// an authorisation recorded for any of these must not open the real call.
fn arg_variants(env: &Env, contract: &Address, func: &'static str, args: SVec<Val>, alts: Vec<(u32, Val)>) -> Vec<Call> {
    alts.into_iter()
        .map(|(i, v)| {
            let mut a = args.clone();
            a.set(i, v);
            let c = contract.clone();
            let _ = env;
            Rc::new(move |env: &Env| match env.try_invoke_contract::<Val, soroban_sdk::Error>(&c, &Symbol::new(env, func), a.clone()) {
                Ok(Ok(_)) => Ok(()),
                Ok(Err(e)) => Err(format!("{:?}", e)),
                Err(e) => Err(format!("{:?}", e)),
            }) as Call
        })
        .collect()
}

/// The named address grants allowances on `tokens` to `spenders` (contracts taking part in the
/// call, the token itself): none of them makes anybody else's authorisation sufficient.
fn grant_allowances(u: &mut U, tokens: &[Address], from: &Address, spenders: &[Address]) {
    let exp = u.seq() + 400;
    let (ts, f, ss) = (tokens.to_vec(), from.clone(), spenders.to_vec());
    u.setup(move |env| {
        for t in &ts {
            for sp in &ss {
                let _ = soroban_sdk::token::TokenClient::new(env, t).try_approve(&f, sp, &1_000_000, &exp);
            }
        }
    });
    u.skip_events();
}

const GROUPS: [&str; 6] = ["token", "gas-service", "gateway", "its", "operators", "example"];

fn matrix(rep: &mut Report, u: &mut U, ep: &Ep, stranger: &Address, state: &str) {
    let mut cands: Vec<(&str, Auth, bool)> = vec![("named-address", Auth::Only(vec![ep.named.clone()]), ep.valid)];
    if let Some(c) = &ep.counterparty {
        if *c != ep.named {
            cands.push(("counterparty", Auth::AllBy(c.clone()), false));
        }
    }
    if let Some(o) = &ep.owner {
        if *o != ep.named {
            cands.push(("contract-owner", Auth::AllBy(o.clone()), false));
        }
    }
    cands.push(("stranger", Auth::AllBy(stranger.clone()), false));
    cands.push(("nobody", Auth::Nobody, false));
    cands.push(("everyone-but-named", Auth::Without(ep.named.clone()), false));
    for _ in &ep.other_args {
        cands.push(("named-other-arguments", Auth::Nobody, false));
    }
    let mut variant = 0usize;
    for (class, auth, must_ok) in cands {
        let ck = u.checkpoint();
        let auth = if class == "named-other-arguments" {
            let call = ep.other_args[variant].clone();
            variant += 1;
            let (_, forest) = u.record(&*call);
            let h = sc_addr(&ep.named);
            Auth::Forest(forest.into_iter().filter(|(a, _)| *a == h).collect())
        } else {
            auth
        };
        let o = u.call(auth, &*ep.call);
        rep.step(format!("{} state={} authoriser={} -> ok={} ({:?})", ep.name, state, class, o.ok(), o.res.as_ref().err()));
        rep.count(&format!("authoriser:{}", class));
        rep.count(&format!("ep:{}", ep.name));
        rep.eval(ep.name, &format!("{}|{}|{}|{}", ep.name, state, class, o.ok()), true);
        if rep.samples.len() < 4 && class == "counterparty" {
            rep.sample(json!({"entry_point": ep.name, "state": state, "authoriser": class, "accepted": o.ok()}));
        }
        if class == "named-address" && o.ok() {
            // the address the property names must be among those the code asked
            if !o.recorded.iter().any(|(a, _)| *a == sc_addr(&ep.named)) {
                rep.violation(&format!("named-address-never-asked:{}", ep.name), "the call succeeded without ever asking the named address".into());
            }
        }
        let leak = o.leak.clone();
        u.restore(&ck);
        if let Some(l) = leak {
            rep.violation(&format!("refused-call-left-trace:{}", ep.name), l);
            continue;
        }
        if o.ok() != must_ok {
            if o.ok() && !ep.valid && class == "named-address" {
                rep.violation(&format!("debited-without-owner's-consent:{}:{}", ep.name, state), format!("{} ({}) debited another address's funds although that address never allowed it", ep.name, state));
            } else if o.ok() {
                rep.violation(&format!("acted-without-named-address:{}:{}", class, ep.name), format!("{} ({}) succeeded when authorised only by: {}", ep.name, state, class));
            } else {
                rep.violation(&format!("named-address-refused:{}", ep.name), format!("{} ({}) failed with exactly the named address's authorisation: {:?}", ep.name, state, o.res));
            }
        }
    }
}

/// Contract-as-caller: the proxy calls `func(args)` on `target` with no authorisation entries.
fn proxy_variant(rep: &mut Report, u: &mut U, name: &str, proxy: &Address, target: &Address, func: &'static str, mk_args: &dyn Fn(&Env, &Address) -> SVec<Val>, other: &Address) {
    for (class, named, must_ok) in [("contract-names-itself", proxy.clone(), true), ("contract-names-other", other.clone(), false)] {
        let ck = u.checkpoint();
        let (p, t) = (proxy.clone(), target.clone());
        let n2 = named.clone();
        // args are built inside the call so that they live in the call's Env
        let mk: Rc<dyn Fn(&Env) -> SVec<Val>> = {
            let env_args = mk_args(&u.env, &n2);
            Rc::new(move |_env: &Env| env_args.clone())
        };
        let o = u.call(Auth::Nobody, &move |env: &Env| flat(ProxyClient::new(env, &p).try_fwd(&t, &Symbol::new(env, func), &mk(env))).map(|_| ()));
        rep.step(format!("{} via proxy {} -> ok={} ({:?})", name, class, o.ok(), o.res.as_ref().err()));
        rep.count(&format!("authoriser:{}", class));
        rep.eval(name, &format!("{}|proxy|{}|{}", name, class, o.ok()), true);
        let leak = o.leak.clone();
        u.restore(&ck);
        if let Some(l) = leak {
            rep.violation(&format!("refused-call-left-trace:{}", name), l);
            continue;
        }
        if o.ok() != must_ok {
            if o.ok() {
                rep.violation(&format!("acted-without-named-address:{}:{}", class, name), format!("{}: a contract acted for another address without its authorisation", name));
            } else {
                rep.violation(&format!("calling-contract-refused:{}", name), format!("{}: the named address is the calling contract, yet the call failed: {:?}", name, o.res));
            }
        }
    }
}

pub fn run(ctx: &Ctx, rep: &mut Report) {
    let total = GROUPS.len() as u64 * if ctx.thorough() { 6 } else { 2 };
    for uni in ctx.my_universes(total) {
        let mut rng = ctx.rng_for(uni);
        rep.begin_universe(uni);
        let group = GROUPS[(uni as usize) % GROUPS.len()];
        rep.count(&format!("group:{}", group));
        match group {
            "token" => {
                let mut u = U::new();
                let owner = u.principal();
                let minter = u.principal();
                let a = u.principal();
                let b = u.principal();
                let c = u.principal();
                let stranger = u.principal();
                let md = metadata(&u.env, b"T", b"T", 7);
                let tk = u.env.register(InterchainToken, (owner.clone(), Some(minter.clone()), BytesN::from_array(&u.env, &rng.bytes32()), md));
                let proxy = u.env.register(Proxy, ());
                {
                    let (t, m, a2, b2, p2) = (tk.clone(), minter.clone(), a.clone(), b.clone(), proxy.clone());
                    let c_twin = twin_of(&u.env, &c);
                    let c2 = c.clone();
                    let exp = u.seq() + 500;
                    u.setup(move |env| {
                        let cl = InterchainTokenClient::new(env, &t);
                        cl.mint_from(&m, &a2, &1000);
                        cl.mint_from(&m, &p2, &1000);
                        cl.approve(&a2, &b2, &300, &exp);
                        // an approval with a lifetime beyond what the ledger can hold (refused today),
                        // then its revocation: c has no allowance
                        let _ = cl.try_approve(&a2, &c2, &1000, &u32::MAX);
                        cl.approve(&a2, &c2, &0, &0);
                        // (afterwards) an allowance to the account that shares its 32 bytes with the
                        // contract address c: it is not c's
                        cl.approve(&a2, &c_twin, &300, &exp);
                        cl.add_minter(&p2);
                    });
                }
                let exp = u.seq() + 500;
                let t = tk.clone();
                let mk = move |f: Rc<dyn Fn(&InterchainTokenClient, &Env) -> Result<(), String>>| -> Call {
                    let t = t.clone();
                    Rc::new(move |env: &Env| f(&InterchainTokenClient::new(env, &t), env))
                };
                let (a1, b1, c1, m1) = (a.clone(), b.clone(), c.clone(), minter.clone());
                let eps = vec![
                    Ep { valid: true, name: "token.approve", named: a.clone(), counterparty: Some(c.clone()), owner: Some(owner.clone()),
                         call: { let (x, y) = (a1.clone(), c1.clone()); mk(Rc::new(move |cl, _| flat(cl.try_approve(&x, &y, &50, &exp)))) },
                         other_args: one({ let (x, y) = (a1.clone(), c1.clone()); mk(Rc::new(move |cl, _| flat(cl.try_approve(&x, &y, &51, &exp)))) }) },
                    Ep { valid: true, name: "token.transfer", named: a.clone(), counterparty: Some(c.clone()), owner: Some(owner.clone()),
                         call: { let (x, y) = (a1.clone(), c1.clone()); mk(Rc::new(move |cl, _| flat(cl.try_transfer(&x, &y, &10)))) },
                         other_args: one({ let (x, y) = (a1.clone(), c1.clone()); mk(Rc::new(move |cl, _| flat(cl.try_transfer(&x, &y, &11)))) }) },
                    Ep { valid: true, name: "token.transfer_from", named: b.clone(), counterparty: Some(a.clone()), owner: Some(owner.clone()),
                         call: { let (s, f, to) = (b1.clone(), a1.clone(), c1.clone()); mk(Rc::new(move |cl, _| flat(cl.try_transfer_from(&s, &f, &to, &10)))) },
                         other_args: one({ let (s, f, to) = (b1.clone(), a1.clone(), c1.clone()); mk(Rc::new(move |cl, _| flat(cl.try_transfer_from(&s, &f, &to, &11)))) }) },
                    Ep { valid: true, name: "token.burn", named: a.clone(), counterparty: None, owner: Some(owner.clone()),
                         call: { let x = a1.clone(); mk(Rc::new(move |cl, _| flat(cl.try_burn(&x, &10)))) },
                         other_args: one({ let x = a1.clone(); mk(Rc::new(move |cl, _| flat(cl.try_burn(&x, &11)))) }) },
                    Ep { valid: true, name: "token.burn_from", named: b.clone(), counterparty: Some(a.clone()), owner: Some(owner.clone()),
                         call: { let (s, f) = (b1.clone(), a1.clone()); mk(Rc::new(move |cl, _| flat(cl.try_burn_from(&s, &f, &10)))) },
                         other_args: one({ let (s, f) = (b1.clone(), a1.clone()); mk(Rc::new(move |cl, _| flat(cl.try_burn_from(&s, &f, &11)))) }) },
                    Ep { valid: true, name: "token.mint_from", named: minter.clone(), counterparty: Some(c.clone()), owner: Some(owner.clone()),
                         call: { let (m, to) = (m1.clone(), c1.clone()); mk(Rc::new(move |cl, _| flat(cl.try_mint_from(&m, &to, &10)))) },
                         other_args: one({ let (m, to) = (m1.clone(), c1.clone()); mk(Rc::new(move |cl, _| flat(cl.try_mint_from(&m, &to, &11)))) }) },
                ];
                // further "other arguments" variants: one argument changed at a time
                let mut eps = eps;
                {
                    let (x, y, z) = (a1.clone(), c1.clone(), b1.clone());
                    // approve: other spender, other expiry
                    eps[0].other_args.push({ let (x, z) = (x.clone(), z.clone()); mk(Rc::new(move |cl, _| flat(cl.try_approve(&x, &z, &50, &exp)))) });
                    eps[0].other_args.push({ let (x, y) = (x.clone(), y.clone()); mk(Rc::new(move |cl, _| flat(cl.try_approve(&x, &y, &50, &(exp + 1))))) });
                    // transfer: other recipient
                    eps[1].other_args.push({ let (x, z) = (x.clone(), z.clone()); mk(Rc::new(move |cl, _| flat(cl.try_transfer(&x, &z, &10)))) });
                    // transfer_from: other recipient
                    eps[2].other_args.push({ let (s, f) = (z.clone(), x.clone()); mk(Rc::new(move |cl, _| flat(cl.try_transfer_from(&s, &f, &s, &10)))) });
                    // mint_from: other recipient
                    eps[5].other_args.push({ let (m, to) = (m1.clone(), x.clone()); mk(Rc::new(move |cl, _| flat(cl.try_mint_from(&m, &to, &10)))) });
                }
                {
                    let e = u.env.clone();
                    // transfer_from / burn_from: other owner of the funds
                    eps[2].other_args.extend(arg_variants(&e, &tk, "transfer_from", (b.clone(), a.clone(), c.clone(), 10i128).into_val(&e), vec![(1, stranger.clone().into_val(&e))]));
                    eps[4].other_args.extend(arg_variants(&e, &tk, "burn_from", (b.clone(), a.clone(), 10i128).into_val(&e), vec![(1, stranger.clone().into_val(&e))]));
                }
                for ep in &eps {
                    matrix(rep, &mut u, ep, &stranger, "with-allowance");
                }
                // renewing, lowering or re-dating the allowance b already has is the holder's call too
                {
                    let renewals = vec![
                        Ep { valid: true, name: "token.approve", named: a.clone(), counterparty: Some(b.clone()), owner: Some(owner.clone()),
                             call: { let (x, y) = (a.clone(), b.clone()); mk(Rc::new(move |cl, _| flat(cl.try_approve(&x, &y, &300, &(exp + 4000))))) }, other_args: vec![] },
                        Ep { valid: true, name: "token.approve", named: a.clone(), counterparty: Some(b.clone()), owner: Some(owner.clone()),
                             call: { let (x, y) = (a.clone(), b.clone()); mk(Rc::new(move |cl, _| flat(cl.try_approve(&x, &y, &100, &exp)))) }, other_args: vec![] },
                        Ep { valid: true, name: "token.approve", named: a.clone(), counterparty: Some(b.clone()), owner: Some(owner.clone()),
                             call: { let (x, y) = (a.clone(), b.clone()); mk(Rc::new(move |cl, _| flat(cl.try_approve(&x, &y, &0, &0)))) }, other_args: vec![] },
                    ];
                    for (i, ep) in renewals.iter().enumerate() {
                        matrix(rep, &mut u, ep, &stranger, ["with-allowance,same-amount-later-expiry", "with-allowance,lower-amount", "with-allowance,revocation"][i]);
                    }
                }
                // the holder has also granted allowances to the token contract itself and to the owner
                {
                    let ck = u.checkpoint();
                    grant_allowances(&mut u, &[tk.clone()], &a, &[tk.clone(), owner.clone(), minter.clone()]);
                    for ep in eps.iter().filter(|e| e.named == a) {
                        matrix(rep, &mut u, ep, &stranger, "with-allowance+allowances-to-contract-and-roles");
                    }
                    u.restore(&ck);
                }
                // states without an allowance: nobody's authorisation may move the owner's funds,
                // whoever the recipient is (the spender itself, the owner of the funds, a third party)
                let (v1, x1) = (a.clone(), c.clone());
                let no_allow = vec![
                    Ep { valid: false, name: "token.transfer_from", named: c.clone(), counterparty: Some(a.clone()), owner: Some(owner.clone()),
                         call: { let (s, f) = (x1.clone(), v1.clone()); mk(Rc::new(move |cl, _| flat(cl.try_transfer_from(&s, &f, &s, &10)))) }, other_args: vec![] },
                    Ep { valid: false, name: "token.transfer_from", named: c.clone(), counterparty: Some(a.clone()), owner: Some(owner.clone()),
                         call: { let (s, f) = (x1.clone(), v1.clone()); mk(Rc::new(move |cl, _| flat(cl.try_transfer_from(&s, &f, &f, &10)))) }, other_args: vec![] },
                    Ep { valid: false, name: "token.transfer_from", named: c.clone(), counterparty: Some(a.clone()), owner: Some(owner.clone()),
                         call: { let (s, f, t3) = (x1.clone(), v1.clone(), b1.clone()); mk(Rc::new(move |cl, _| flat(cl.try_transfer_from(&s, &f, &t3, &10)))) }, other_args: vec![] },
                    Ep { valid: false, name: "token.burn_from", named: c.clone(), counterparty: Some(a.clone()), owner: Some(owner.clone()),
                         call: { let (s, f) = (x1.clone(), v1.clone()); mk(Rc::new(move |cl, _| flat(cl.try_burn_from(&s, &f, &10)))) }, other_args: vec![] },
                ];
                for (i, ep) in no_allow.iter().enumerate() {
                    matrix(rep, &mut u, ep, &stranger, ["no-allowance,recipient=spender", "no-allowance,recipient=owner-of-funds", "no-allowance,recipient=third-party", "no-allowance"][i]);
                }
                // a minter (or the owner) is not thereby allowed to spend other people's funds, and
                // minting a negative amount would debit the recipient
                let (m2, o2, v2) = (minter.clone(), owner.clone(), a.clone());
                let role_eps = vec![
                    Ep { valid: false, name: "token.burn_from", named: minter.clone(), counterparty: Some(a.clone()), owner: Some(owner.clone()),
                         call: { let (s, f) = (m2.clone(), v2.clone()); mk(Rc::new(move |cl, _| flat(cl.try_burn_from(&s, &f, &10)))) }, other_args: vec![] },
                    Ep { valid: false, name: "token.transfer_from", named: minter.clone(), counterparty: Some(a.clone()), owner: Some(owner.clone()),
                         call: { let (s, f) = (m2.clone(), v2.clone()); mk(Rc::new(move |cl, _| flat(cl.try_transfer_from(&s, &f, &s, &10)))) }, other_args: vec![] },
                    Ep { valid: false, name: "token.burn_from", named: owner.clone(), counterparty: Some(a.clone()), owner: None,
                         call: { let (s, f) = (o2.clone(), v2.clone()); mk(Rc::new(move |cl, _| flat(cl.try_burn_from(&s, &f, &10)))) }, other_args: vec![] },
                    Ep { valid: false, name: "token.mint_from", named: minter.clone(), counterparty: Some(a.clone()), owner: Some(owner.clone()),
                         call: { let (s, f) = (m2.clone(), v2.clone()); mk(Rc::new(move |cl, _| flat(cl.try_mint_from(&s, &f, &-400)))) }, other_args: vec![] },
                    Ep { valid: false, name: "token.mint_from", named: owner.clone(), counterparty: Some(a.clone()), owner: None,
                         call: { let f = v2.clone(); mk(Rc::new(move |cl, _| flat(cl.try_mint(&f, &-250)))) }, other_args: vec![] },
                ];
                for (i, ep) in role_eps.iter().enumerate() {
                    matrix(rep, &mut u, ep, &stranger, ["no-allowance,spender-is-minter", "no-allowance,spender-is-minter,recipient=spender", "no-allowance,spender-is-owner", "negative-mint-by-minter", "negative-mint-by-owner"][i]);
                }
                // the allowance granted to b (300) must not be exceeded either, even when b is the recipient
                let over = Ep { valid: false, name: "token.transfer_from", named: b.clone(), counterparty: Some(a.clone()), owner: Some(owner.clone()),
                                call: { let (s, f) = (b1.clone(), a1.clone()); mk(Rc::new(move |cl, _| flat(cl.try_transfer_from(&s, &f, &s, &301)))) }, other_args: vec![] };
                matrix(rep, &mut u, &over, &stranger, "allowance-exceeded,recipient=spender");
                // entry points of the token this workload does not know, called by a stranger (who holds
                // nothing and was granted nothing) with what is at hand: `a`'s balance must not move
                {
                    let names = unknown_entry_points("interchain-token", &["owner", "transfer_ownership", "version", "upgrade", "migrate"]);
                    if !names.is_empty() {
                        let ck = u.checkpoint();
                        let e = u.env.clone();
                        let t0 = tk.clone();
                        let a0 = a.clone();
                        let before: i128 = u.query(move |env| InterchainTokenClient::new(env, &t0).balance(&a0));
                        let tuples: Vec<SVec<Val>> = vec![
                            (a.clone(), stranger.clone(), 5i128).into_val(&e),
                            (stranger.clone(), a.clone(), stranger.clone(), 5i128).into_val(&e),
                            (a.clone(), 5i128).into_val(&e),
                            (stranger.clone(), a.clone(), 5i128).into_val(&e),
                        ];
                        let mut bad: Option<String> = None;
                        'tp: for auth in [Auth::AllBy(stranger.clone()), Auth::Nobody] {
                            for name in &names {
                                for t in &tuples {
                                    if u.try_unknown(&tk, std::slice::from_ref(name), std::slice::from_ref(t), &auth) > 0 {
                                        let (t0, a0) = (tk.clone(), a.clone());
                                        let now: i128 = u.query(move |env| InterchainTokenClient::new(env, &t0).balance(&a0));
                                        if now < before {
                                            bad = Some(name.clone());
                                            break 'tp;
                                        }
                                    }
                                }
                            }
                        }
                        rep.count("unknown-entry-point-tried");
                        rep.eval("token.unknown-entry-points", &format!("token.unknown|stranger|{}", bad.is_none()), true);
                        if let Some(name) = bad {
                            rep.violation("debited-without-owner's-consent:token.unknown-entry-point", format!("a stranger's call of {} lowered another address's balance", name));
                        }
                        u.restore(&ck);
                    }
                }
                // an approval that has lapsed (its ledger entry still exists) authorises nothing, not even
                // a spend of exactly its whole amount
                {
                    let ck = u.checkpoint();
                    let d = u.principal();
                    let (t, a2, d2) = (tk.clone(), a.clone(), d.clone());
                    let short = u.seq() + 3;
                    u.setup(move |env| InterchainTokenClient::new(env, &t).approve(&a2, &d2, &77, &short));
                    u.skip_events();
                    u.advance(6);
                    for (i, amount) in [77i128, 1].iter().enumerate() {
                        let (s, f, am) = (d.clone(), a.clone(), *amount);
                        let ep = Ep { valid: false, name: "token.transfer_from", named: d.clone(), counterparty: Some(a.clone()), owner: Some(owner.clone()),
                                      call: mk(Rc::new(move |cl, _| flat(cl.try_transfer_from(&s, &f, &s, &am)))), other_args: vec![] };
                        matrix(rep, &mut u, &ep, &stranger, ["lapsed-allowance,whole-amount", "lapsed-allowance,part"][i]);
                        let (s, f, am) = (d.clone(), a.clone(), *amount);
                        let ep = Ep { valid: false, name: "token.burn_from", named: d.clone(), counterparty: Some(a.clone()), owner: Some(owner.clone()),
                                      call: mk(Rc::new(move |cl, _| flat(cl.try_burn_from(&s, &f, &am)))), other_args: vec![] };
                        matrix(rep, &mut u, &ep, &stranger, ["lapsed-allowance,whole-amount", "lapsed-allowance,part"][i]);
                    }
                    u.restore(&ck);
                }
                // an allowance granted to the owner is the owner's, not the office's: after a hand-over
                // the new owner has none
                {
                    let ck = u.checkpoint();
                    let new_owner = u.principal();
                    let (t, a2, o2, n2) = (tk.clone(), a.clone(), owner.clone(), new_owner.clone());
                    u.setup(move |env| {
                        let cl = InterchainTokenClient::new(env, &t);
                        cl.approve(&a2, &o2, &200, &exp);
                        cl.transfer_ownership(&n2);
                    });
                    u.skip_events();
                    let (s, f) = (new_owner.clone(), a.clone());
                    let ep = Ep { valid: false, name: "token.transfer_from", named: new_owner.clone(), counterparty: Some(a.clone()), owner: Some(owner.clone()),
                                  call: mk(Rc::new(move |cl, _| flat(cl.try_transfer_from(&s, &f, &s, &10)))), other_args: vec![] };
                    matrix(rep, &mut u, &ep, &stranger, "allowance-to-the-previous-owner,spender-is-the-new-owner");
                    let (s, f) = (new_owner.clone(), a.clone());
                    let ep = Ep { valid: false, name: "token.burn_from", named: new_owner.clone(), counterparty: Some(a.clone()), owner: Some(owner.clone()),
                                  call: mk(Rc::new(move |cl, _| flat(cl.try_burn_from(&s, &f, &10)))), other_args: vec![] };
                    matrix(rep, &mut u, &ep, &stranger, "allowance-to-the-previous-owner,spender-is-the-new-owner");
                    u.restore(&ck);
                }
                // contract-as-caller
                let cc = c.clone();
                proxy_variant(rep, &mut u, "token.transfer", &proxy, &tk, "transfer", &|env, n| (n.clone(), cc.clone(), 5i128).into_val(env), &a);
                proxy_variant(rep, &mut u, "token.burn", &proxy, &tk, "burn", &|env, n| (n.clone(), 5i128).into_val(env), &a);
                let cc = c.clone();
                proxy_variant(rep, &mut u, "token.approve", &proxy, &tk, "approve", &|env, n| (n.clone(), cc.clone(), 5i128, exp).into_val(env), &a);
                let cc = c.clone();
                proxy_variant(rep, &mut u, "token.mint_from", &proxy, &tk, "mint_from", &|env, n| (n.clone(), cc.clone(), 5i128).into_val(env), &minter);
            }
            "gas-service" => {
                let mut u = U::new();
                let owner = u.principal();
                let collector = u.principal();
                let spender = u.principal();
                let stranger = u.principal();
                let app = u.principal();
                let gs = u.env.register(AxelarGasService, (&owner, &collector));
                let admin = u.principal();
                for kind in [TokKind::Sac, TokKind::Native] {
                    let tok = make_token(&mut u, kind, &admin, &mut rng);
                    mint(&mut u, &tok, &spender, 1000);
                    let mk = |amount: i128, add: bool| -> Call {
                        let (g, sp, t, ap) = (gs.clone(), spender.clone(), tok.addr.clone(), app.clone());
                        Rc::new(move |env: &Env| {
                            let c = AxelarGasServiceClient::new(env, &g);
                            let tk = Token { address: t.clone(), amount };
                            if add {
                                flat(c.try_add_gas(&ap, &sstr(env, b"m-1"), &sp, &tk))
                            } else {
                                flat(c.try_pay_gas(&ap, &sstr(env, b"dest"), &sstr(env, b"0xd"), &sbytes(env, b"payload"), &sp, &tk, &sbytes(env, b"")))
                            }
                        })
                    };
                    let eps = vec![
                        Ep { valid: true, name: "gas-service.pay_gas", named: spender.clone(), counterparty: Some(app.clone()), owner: Some(owner.clone()), call: mk(10, false), other_args: one(mk(11, false)) },
                        Ep { valid: true, name: "gas-service.add_gas", named: spender.clone(), counterparty: Some(collector.clone()), owner: Some(owner.clone()), call: mk(10, true), other_args: one(mk(11, true)) },
                    ];
                    let mut eps = eps;
                    {
                        let e = u.env.clone();
                        let other_tok = make_token(&mut u, TokKind::Sac, &admin, &mut rng);
                        mint(&mut u, &other_tok, &spender, 1000);
                        let t10 = Token { address: tok.addr.clone(), amount: 10 };
                        let t_other = Token { address: other_tok.addr.clone(), amount: 10 };
                        let pay: SVec<Val> = (app.clone(), sstr(&e, b"dest"), sstr(&e, b"0xd"), sbytes(&e, b"payload"), spender.clone(), t10.clone(), sbytes(&e, b"")).into_val(&e);
                        eps[0].other_args.extend(arg_variants(&e, &gs, "pay_gas", pay, vec![
                            (0, stranger.clone().into_val(&e)),
                            (1, sstr(&e, b"dest2").into_val(&e)),
                            (2, sstr(&e, b"0xe").into_val(&e)),
                            (3, sbytes(&e, b"payload2").into_val(&e)),
                            (5, t_other.clone().into_val(&e)),
                            (6, sbytes(&e, b"meta").into_val(&e)),
                        ]));
                        let add: SVec<Val> = (app.clone(), sstr(&e, b"m-1"), spender.clone(), t10.clone()).into_val(&e);
                        eps[1].other_args.extend(arg_variants(&e, &gs, "add_gas", add, vec![
                            (0, stranger.clone().into_val(&e)),
                            (1, sstr(&e, b"m-2").into_val(&e)),
                            (3, t_other.into_val(&e)),
                        ]));
                    }
                    let state = if kind == TokKind::Sac { "asset-contract" } else { "interchain-token" };
                    for ep in &eps {
                        matrix(rep, &mut u, ep, &stranger, state);
                    }
                    // the spender has pre-approved the gas service (and the application) on the gas token
                    let ck = u.checkpoint();
                    grant_allowances(&mut u, &[tok.addr.clone()], &spender, &[gs.clone(), app.clone(), tok.addr.clone()]);
                    for ep in &eps {
                        matrix(rep, &mut u, ep, &stranger, &format!("{}+allowance-to-gas-service", state));
                    }
                    u.restore(&ck);
                }
            }
            "gateway" => {
                let mut u = U::new();
                let mut ring = KeyRing::default();
                let owner = u.principal();
                let operator = u.principal();
                let caller = u.principal();
                let stranger = u.principal();
                let set = gen_wellformed_set(&mut rng, &mut ring, 2);
                let mut g = Gw::deploy(&mut u, &owner, &operator, rng.bytes32(), 0, 1, &[set]);
                let proxy = u.env.register(Proxy, ());
                u.skip_events();
                let m = MMessage { source_chain: b"eth".to_vec(), message_id: b"id-1".to_vec(), source_address: b"0xsrc".to_vec(), contract: sc_addr(&caller), payload_hash: rng.bytes32() };
                let mp = MMessage { contract: sc_addr(&proxy), message_id: b"id-2".to_vec(), ..m.clone() };
                // a message for the account nobody can sign for
                let mz = MMessage { contract: ZERO_ACCOUNT.clone(), message_id: b"id-3".to_vec(), ..m.clone() };
                if !g.approve_honest(&mut u, &ring, &[m.clone(), mp.clone(), mz.clone()]) {
                    rep.foreign("honest-approval-refused");
                    continue;
                }
                let mk_call = |payload: &'static [u8]| -> Call {
                    let (a, c) = (g.addr.clone(), caller.clone());
                    Rc::new(move |env: &Env| flat(AxelarGatewayClient::new(env, &a).try_call_contract(&c, &sstr(env, b"dest"), &sstr(env, b"0xd"), &sbytes(env, payload))))
                };
                let mk_val = |mm: MMessage| -> Call {
                    let a = g.addr.clone();
                    Rc::new(move |env: &Env| {
                        let r = flat(AxelarGatewayClient::new(env, &a).try_validate_message(&addr_of(env, &mm.contract), &sstr(env, &mm.source_chain), &sstr(env, &mm.message_id), &sstr(env, &mm.source_address), &BytesN::from_array(env, &mm.payload_hash)))?;
                        // consuming means: the gateway said yes
                        if r { Ok(()) } else { Err("not-consumed".into()) }
                    })
                };
                let mut m_other = m.clone();
                m_other.payload_hash[0] ^= 1;
                let mut m_other_src = m.clone();
                m_other_src.source_address.push(b'2');
                let mut m_other_id = m.clone();
                m_other_id.message_id.push(b'2');
                let eps = vec![
                    Ep { valid: true, name: "gateway.call_contract", named: caller.clone(), counterparty: None, owner: Some(owner.clone()), call: mk_call(b"payload-1"), other_args: one(mk_call(b"payload-2")) },
                    Ep { valid: true, name: "gateway.validate_message", named: caller.clone(), counterparty: Some(operator.clone()), owner: Some(owner.clone()), call: mk_val(m.clone()), other_args: one(mk_val(m_other)) },
                ];
                let mut eps = eps;
                eps[1].other_args.push(mk_val(m_other_src));
                eps[1].other_args.push(mk_val(m_other_id));
                let mut m_other_chain = m.clone();
                m_other_chain.source_chain.push(b'2');
                eps[1].other_args.push(mk_val(m_other_chain));
                {
                    let e = u.env.clone();
                    let cc: SVec<Val> = (caller.clone(), sstr(&e, b"dest"), sstr(&e, b"0xd"), sbytes(&e, b"payload-1")).into_val(&e);
                    eps[0].other_args.extend(arg_variants(&e, &g.addr, "call_contract", cc, vec![(1, sstr(&e, b"dest2").into_val(&e)), (2, sstr(&e, b"0xe").into_val(&e))]));
                }
                for ep in &eps {
                    matrix(rep, &mut u, ep, &stranger, "approved");
                }
                {
                    let zero = addr_of(&u.env, &ZERO_ACCOUNT);
                    let e = u.env.clone();
                    let cc: SVec<Val> = (zero.clone(), sstr(&e, b"dest"), sstr(&e, b"0xd"), sbytes(&e, b"payload-1")).into_val(&e);
                    let call_as_zero = arg_variants(&e, &g.addr, "call_contract", cc, vec![(3, sbytes(&e, b"payload-1").into_val(&e))]).remove(0);
                    let zero_eps = vec![
                        Ep { valid: false, name: "gateway.validate_message", named: zero.clone(), counterparty: Some(operator.clone()), owner: Some(owner.clone()), call: mk_val(mz.clone()), other_args: vec![] },
                        Ep { valid: false, name: "gateway.call_contract", named: zero.clone(), counterparty: Some(operator.clone()), owner: Some(owner.clone()), call: call_as_zero, other_args: vec![] },
                    ];
                    for ep in &zero_eps {
                        matrix(rep, &mut u, ep, &stranger, "named-address-is-the-all-zero-account");
                    }
                }
                // entry points of the gateway this workload does not know, called by a stranger who names
                // itself and lists the message that is approved for `caller`: the message must stay
                // approved and unconsumed, whatever the entry point says
                {
                    let names = unknown_entry_points("axelar-gateway", &["owner", "transfer_ownership", "operator", "transfer_operatorship", "version", "upgrade", "migrate"]);
                    if !names.is_empty() {
                        let ck = u.checkpoint();
                        let e = u.env.clone();
                        let one = crate::gw::sdk_message(&e, &m);
                        let mut list: SVec<axelar_gateway::types::Message> = SVec::new(&e);
                        list.push_back(one.clone());
                        let tuples: Vec<SVec<Val>> = vec![
                            (stranger.clone(), list.clone()).into_val(&e),
                            (stranger.clone(), one.clone()).into_val(&e),
                            (list,).into_val(&e),
                            (one,).into_val(&e),
                            (stranger.clone(), sstr(&e, &m.source_chain), sstr(&e, &m.message_id), sstr(&e, &m.source_address), BytesN::from_array(&e, &m.payload_hash)).into_val(&e),
                        ];
                        let mut bad: Option<String> = None;
                        'probe: for auth in [Auth::AllBy(stranger.clone()), Auth::Nobody] {
                            for name in &names {
                                for t in &tuples {
                                    if u.try_unknown(&g.addr, std::slice::from_ref(name), std::slice::from_ref(t), &auth) > 0 {
                                        let (a, mm) = (g.addr.clone(), m.clone());
                                        let still = u.query(move |env| {
                                            let c = AxelarGatewayClient::new(env, &a);
                                            c.is_message_approved(&sstr(env, &mm.source_chain), &sstr(env, &mm.message_id), &sstr(env, &mm.source_address), &addr_of(env, &mm.contract), &BytesN::from_array(env, &mm.payload_hash))
                                                && !c.is_message_executed(&sstr(env, &mm.source_chain), &sstr(env, &mm.message_id))
                                        });
                                        if !still {
                                            bad = Some(name.clone());
                                            break 'probe;
                                        }
                                    }
                                }
                            }
                        }
                        rep.count("unknown-entry-point-tried");
                        rep.eval("gateway.unknown-entry-points", &format!("gateway.unknown|stranger|{}", bad.is_none()), true);
                        if let Some(name) = bad {
                            rep.violation("acted-without-named-address:stranger:gateway.unknown-entry-point", format!("after a stranger's call of {} the message approved for another address is no longer approved and unconsumed", name));
                        }
                        u.restore(&ck);
                    }
                }
                proxy_variant(rep, &mut u, "gateway.call_contract", &proxy, &g.addr, "call_contract", &|env, n| (n.clone(), sstr(env, b"dest"), sstr(env, b"0xd"), sbytes(env, b"p")).into_val(env), &caller);
                // validate_message through the proxy: naming the proxy consumes the proxy's message; naming
                // the other app must fail for lack of its authorisation
                for (class, named, msg, must_ok) in [("contract-names-itself", proxy.clone(), mp.clone(), true), ("contract-names-other", caller.clone(), m.clone(), false)] {
                    let ck = u.checkpoint();
                    let (p, t) = (proxy.clone(), g.addr.clone());
                    let args: SVec<Val> = (named.clone(), sstr(&u.env, &msg.source_chain), sstr(&u.env, &msg.message_id), sstr(&u.env, &msg.source_address), BytesN::from_array(&u.env, &msg.payload_hash)).into_val(&u.env);
                    let o = u.call(Auth::Nobody, &move |env: &Env| {
                        let v = flat(ProxyClient::new(env, &p).try_fwd(&t, &Symbol::new(env, "validate_message"), &args))?;
                        if v.is_true() { Ok(()) } else { Err("not-consumed".to_string()) }
                    });
                    rep.count(&format!("authoriser:{}", class));
                    rep.eval("gateway.validate_message", &format!("gateway.validate_message|proxy|{}|{}", class, o.ok()), true);
                    u.restore(&ck);
                    if o.ok() != must_ok {
                        if o.ok() {
                            rep.violation(&format!("acted-without-named-address:{}:gateway.validate_message", class), "a contract consumed another contract's message".into());
                        } else {
                            rep.violation("calling-contract-refused:gateway.validate_message", format!("{:?}", o.res));
                        }
                    }
                }
            }
            "its" => {
                let mut w = ItsWorld::new(&mut rng, b"stellar", b"hub", 3);
                w.trust(b"ethereum");
                w.trust(b"avalanche");
                let caller = w.users[0].clone();
                let other_user = w.users[1].clone();
                let payer = w.users[2].clone();
                w.fund_gas(&caller, 100);
                w.fund_gas(&payer, 100);
                let salt = rng.bytes32();
                let o = w.do_deploy(&caller, &salt, b"Tok", b"TOK", 7, 1000, None, Auth::Only(vec![caller.clone()]));
                let id = match o.res {
                    Ok(id) => id,
                    Err(_) => {
                        rep.foreign("setup-deployment-refused");
                        continue;
                    }
                };
                let admin = w.u.principal();
                let sac = make_token(&mut w.u, TokKind::Sac, &admin, &mut rng);
                if w.do_register_canonical(&sac.addr).res.is_err() {
                    rep.foreign("setup-registration-refused");
                    continue;
                }
                // a fresh salt whose token address is primed so that a deployment can succeed in the matrix
                let salt2 = rng.bytes32();
                let id2 = w.view_token_id(&caller, &salt2);
                w.prime_for(&id2);
                let salt3 = rng.bytes32();
                let id3 = w.view_token_id(&caller, &salt3);
                w.prime_for(&id3);
                // trial deployments (rolled back): if the service derives token addresses differently
                // from the harness's prediction, this primes the addresses it really uses
                for s in [salt2, salt3] {
                    let ck = w.u.checkpoint();
                    let gm = w.g.model.clone();
                    let _ = w.do_deploy(&caller, &s, b"N", b"S", 6, 10, None, Auth::Only(vec![caller.clone()]));
                    w.u.restore(&ck);
                    w.g.model = gm;
                }
                let (its, gas) = (w.its.clone(), w.gas.addr.clone());
                let mk_deploy = |s: [u8; 32]| -> Call {
                    let (i, c) = (its.clone(), caller.clone());
                    Rc::new(move |env: &Env| {
                        flat(interchain_token_service::InterchainTokenServiceClient::new(env, &i).try_deploy_interchain_token(&c, &BytesN::from_array(env, &s), &metadata(env, b"N", b"S", 6), &10, &None)).map(|_| ())
                    })
                };
                let mk_remote = |gas_amount: i128| -> Call {
                    let (i, c, g) = (its.clone(), caller.clone(), gas.clone());
                    Rc::new(move |env: &Env| {
                        flat(interchain_token_service::InterchainTokenServiceClient::new(env, &i).try_deploy_remote_interchain_token(&c, &BytesN::from_array(env, &salt), &sstr(env, b"ethereum"), &Token { address: g.clone(), amount: gas_amount })).map(|_| ())
                    })
                };
                let mk_canon = |gas_amount: i128| -> Call {
                    let (i, p, g, t) = (its.clone(), payer.clone(), gas.clone(), sac.addr.clone());
                    Rc::new(move |env: &Env| {
                        flat(interchain_token_service::InterchainTokenServiceClient::new(env, &i).try_deploy_remote_canonical_token(&t, &sstr(env, b"ethereum"), &p, &Token { address: g.clone(), amount: gas_amount })).map(|_| ())
                    })
                };
                let mk_transfer = |amount: i128| -> Call {
                    let (i, c, g) = (its.clone(), caller.clone(), gas.clone());
                    Rc::new(move |env: &Env| {
                        flat(interchain_token_service::InterchainTokenServiceClient::new(env, &i).try_interchain_transfer(&c, &BytesN::from_array(env, &id), &sstr(env, b"ethereum"), &sbytes(env, b"0xdest"), &amount, &None, &Token { address: g.clone(), amount: 2 }))
                    })
                };
                let mk_transfer_to = |dest_chain: &'static [u8], dest_addr: &'static [u8]| -> Call {
                    let (i, c, g) = (its.clone(), caller.clone(), gas.clone());
                    Rc::new(move |env: &Env| {
                        flat(interchain_token_service::InterchainTokenServiceClient::new(env, &i).try_interchain_transfer(&c, &BytesN::from_array(env, &id), &sstr(env, dest_chain), &sbytes(env, dest_addr), &10, &None, &Token { address: g.clone(), amount: 2 }))
                    })
                };
                let owner = w.owner.clone();
                let eps = vec![
                    Ep { valid: true, name: "its.deploy_interchain_token", named: caller.clone(), counterparty: Some(other_user.clone()), owner: Some(owner.clone()), call: mk_deploy(salt2), other_args: one(mk_deploy(salt3)) },
                    Ep { valid: true, name: "its.deploy_remote_interchain_token", named: caller.clone(), counterparty: Some(other_user.clone()), owner: Some(owner.clone()), call: mk_remote(3), other_args: one(mk_remote(4)) },
                    Ep { valid: true, name: "its.deploy_remote_canonical_token", named: payer.clone(), counterparty: Some(caller.clone()), owner: Some(owner.clone()), call: mk_canon(3), other_args: one(mk_canon(4)) },
                    Ep { valid: true, name: "its.interchain_transfer", named: caller.clone(), counterparty: Some(other_user.clone()), owner: Some(owner.clone()), call: mk_transfer(10), other_args: one(mk_transfer(11)) },
                ];
                let stranger = w.stranger.clone();
                let mut eps = eps;
                eps[3].other_args.push(mk_transfer_to(b"ethereum", b"0xattacker"));
                let canon_id = w.view_canonical_id(&sac.addr);
                {
                    let e = w.u.env.clone();
                    let gas3 = Token { address: gas.clone(), amount: 3 };
                    let gas2 = Token { address: gas.clone(), amount: 2 };
                    let other_gas = Token { address: sac.addr.clone(), amount: 3 };
                    let dep: SVec<Val> = (caller.clone(), BytesN::from_array(&e, &salt2), metadata(&e, b"N", b"S", 6), 10i128, None::<Address>).into_val(&e);
                    eps[0].other_args.extend(arg_variants(&e, &its, "deploy_interchain_token", dep, vec![
                        (2, metadata(&e, b"N2", b"S", 6).into_val(&e)),
                        (2, metadata(&e, b"N", b"S2", 6).into_val(&e)),
                        (2, metadata(&e, b"N", b"S", 7).into_val(&e)),
                        (3, 11i128.into_val(&e)),
                        (3, 0i128.into_val(&e)),
                        (4, Some(stranger.clone()).into_val(&e)),
                        (4, Some(other_user.clone()).into_val(&e)),
                    ]));
                    let rem: SVec<Val> = (caller.clone(), BytesN::from_array(&e, &salt), sstr(&e, b"ethereum"), gas3.clone()).into_val(&e);
                    eps[1].other_args.extend(arg_variants(&e, &its, "deploy_remote_interchain_token", rem, vec![
                        (1, BytesN::from_array(&e, &salt2).into_val(&e)),
                        (2, sstr(&e, b"avalanche").into_val(&e)),
                        (3, other_gas.clone().into_val(&e)),
                    ]));
                    let can: SVec<Val> = (sac.addr.clone(), sstr(&e, b"ethereum"), payer.clone(), gas3.clone()).into_val(&e);
                    eps[2].other_args.extend(arg_variants(&e, &its, "deploy_remote_canonical_token", can, vec![
                        (0, gas.clone().into_val(&e)),
                        (1, sstr(&e, b"avalanche").into_val(&e)),
                        (3, other_gas.clone().into_val(&e)),
                    ]));
                    let tr: SVec<Val> = (caller.clone(), BytesN::from_array(&e, &id), sstr(&e, b"ethereum"), sbytes(&e, b"0xdest"), 10i128, None::<soroban_sdk::Bytes>, gas2.clone()).into_val(&e);
                    eps[3].other_args.extend(arg_variants(&e, &its, "interchain_transfer", tr, vec![
                        (1, BytesN::from_array(&e, &canon_id).into_val(&e)),
                        (2, sstr(&e, b"avalanche").into_val(&e)),
                        (5, Some(sbytes(&e, b"data")).into_val(&e)),
                        (6, gas3.clone().into_val(&e)),
                        (6, other_gas.into_val(&e)),
                    ]));
                }
                for ep in &eps {
                    matrix(rep, &mut w.u, ep, &stranger, "registered");
                }
                // gas amounts the gas service refuses: nobody's authorisation (and no lack of it) may
                // let the request through in the named address's name
                {
                    let zero_eps = vec![
                        Ep { valid: false, name: "its.deploy_remote_canonical_token", named: payer.clone(), counterparty: Some(caller.clone()), owner: Some(owner.clone()), call: mk_canon(0), other_args: vec![] },
                        Ep { valid: false, name: "its.deploy_remote_canonical_token", named: payer.clone(), counterparty: Some(caller.clone()), owner: Some(owner.clone()), call: mk_canon(-1), other_args: vec![] },
                        Ep { valid: false, name: "its.deploy_remote_interchain_token", named: caller.clone(), counterparty: Some(other_user.clone()), owner: Some(owner.clone()), call: mk_remote(0), other_args: vec![] },
                    ];
                    for (i, ep) in zero_eps.iter().enumerate() {
                        matrix(rep, &mut w.u, ep, &stranger, ["registered,gas-zero", "registered,gas-negative", "registered,gas-zero"][i]);
                    }
                }
                // the named addresses have pre-approved the service, the gas service and the gateway
                // on the token and on the gas token
                {
                    let tok_addr = w.token_addr(&id);
                    let spenders = [its.clone(), w.gs.clone(), w.g.addr.clone(), tok_addr.clone()];
                    grant_allowances(&mut w.u, &[gas.clone(), tok_addr.clone(), sac.addr.clone()], &caller, &spenders);
                    grant_allowances(&mut w.u, &[gas.clone(), sac.addr.clone()], &payer, &spenders);
                    for ep in &eps {
                        matrix(rep, &mut w.u, ep, &stranger, "registered+allowances-to-services");
                    }
                }
            }
            "operators" => {
                let mut u = U::new();
                let owner = u.principal();
                let op = u.principal();
                let stranger = u.principal();
                let oc = u.env.register(AxelarOperators, (&owner,));
                let target = u.env.register(ProbeTarget, ());
                let proxy = u.env.register(Proxy, ());
                {
                    let (o2, p2, x2) = (oc.clone(), op.clone(), proxy.clone());
                    u.setup(move |env| {
                        let c = AxelarOperatorsClient::new(env, &o2);
                        c.add_operator(&p2);
                        c.add_operator(&x2);
                    });
                }
                let mk = |arg: u32| -> Call {
                    let (o2, p2, t2) = (oc.clone(), op.clone(), target.clone());
                    Rc::new(move |env: &Env| {
                        let mut a: SVec<Val> = SVec::new(env);
                        a.push_back(arg.into_val(env));
                        flat(AxelarOperatorsClient::new(env, &o2).try_execute(&p2, &t2, &Symbol::new(env, "f1"), &a)).map(|_| ())
                    })
                };
                let other_target = u.env.register(ProbeTarget, ());
                u.skip_events();
                let mk_fn = |func: &'static str, tgt: Address| -> Call {
                    let (o2, p2) = (oc.clone(), op.clone());
                    Rc::new(move |env: &Env| {
                        let mut a: SVec<Val> = SVec::new(env);
                        a.push_back(1u32.into_val(env));
                        flat(AxelarOperatorsClient::new(env, &o2).try_execute(&p2, &tgt, &Symbol::new(env, func), &a)).map(|_| ())
                    })
                };
                let mut ep = Ep { valid: true, name: "operators.execute", named: op.clone(), counterparty: Some(target.clone()), owner: Some(owner.clone()), call: mk(1), other_args: one(mk(2)) };
                ep.other_args.push(mk_fn("g1", target.clone()));
                ep.other_args.push(mk_fn("f1", other_target.clone()));
                matrix(rep, &mut u, &ep, &stranger, "member");
                // the operator named is the very contract being called
                {
                    let (o2, t2) = (oc.clone(), target.clone());
                    u.setup(move |env| AxelarOperatorsClient::new(env, &o2).add_operator(&t2));
                    u.skip_events();
                    let (o2, t2) = (oc.clone(), target.clone());
                    let call: Call = Rc::new(move |env: &Env| {
                        let mut a: SVec<Val> = SVec::new(env);
                        a.push_back(3u32.into_val(env));
                        flat(AxelarOperatorsClient::new(env, &o2).try_execute(&t2, &t2, &Symbol::new(env, "f1"), &a)).map(|_| ())
                    });
                    let ep = Ep { valid: true, name: "operators.execute", named: target.clone(), counterparty: Some(op.clone()), owner: Some(owner.clone()), call, other_args: vec![] };
                    matrix(rep, &mut u, &ep, &stranger, "member,operator-is-the-target");
                }
                let t2 = target.clone();
                proxy_variant(rep, &mut u, "operators.execute", &proxy, &oc, "execute", &|env, n| {
                    let mut a: SVec<Val> = SVec::new(env);
                    a.push_back(7u32.into_val(env));
                    (n.clone(), t2.clone(), Symbol::new(env, "f1"), a).into_val(env)
                }, &op);
            }
            _ => {
                let mut u = U::new();
                let mut ring = KeyRing::default();
                let owner = u.principal();
                let operator = u.principal();
                let caller = u.principal();
                let stranger = u.principal();
                let set = gen_wellformed_set(&mut rng, &mut ring, 2);
                let g = Gw::deploy(&mut u, &owner, &operator, rng.bytes32(), 0, 1, &[set]);
                let gs = u.env.register(AxelarGasService, (&owner, &operator));
                let ex = u.env.register(Example, (&g.addr, &gs));
                let admin = u.principal();
                let tok = make_token(&mut u, TokKind::Sac, &admin, &mut rng);
                mint(&mut u, &tok, &caller, 100);
                let mk = |amount: i128| -> Call {
                    let (e, c, t) = (ex.clone(), caller.clone(), tok.addr.clone());
                    Rc::new(move |env: &Env| flat(ExampleClient::new(env, &e).try_send(&c, &sstr(env, b"dest"), &sstr(env, b"0xd"), &sbytes(env, b"hello"), &Token { address: t.clone(), amount })))
                };
                let mk_msg = |dest: &'static [u8], msg: &'static [u8]| -> Call {
                    let (e, c, t) = (ex.clone(), caller.clone(), tok.addr.clone());
                    Rc::new(move |env: &Env| flat(ExampleClient::new(env, &e).try_send(&c, &sstr(env, b"dest"), &sstr(env, dest), &sbytes(env, msg), &Token { address: t.clone(), amount: 5 })))
                };
                let mut ep = Ep { valid: true, name: "example.send", named: caller.clone(), counterparty: Some(operator.clone()), owner: Some(owner.clone()), call: mk(5), other_args: one(mk(6)) };
                ep.other_args.push(mk_msg(b"0xd", b"other message"));
                ep.other_args.push(mk_msg(b"0xattacker", b"hello"));
                {
                    let e = u.env.clone();
                    let t5 = Token { address: tok.addr.clone(), amount: 5 };
                    let sd: SVec<Val> = (caller.clone(), sstr(&e, b"dest"), sstr(&e, b"0xd"), sbytes(&e, b"hello"), t5).into_val(&e);
                    ep.other_args.extend(arg_variants(&e, &ex, "send", sd, vec![(1, sstr(&e, b"dest2").into_val(&e))]));
                }
                matrix(rep, &mut u, &ep, &stranger, "funded");
                grant_allowances(&mut u, &[tok.addr.clone()], &caller, &[ex.clone(), gs.clone(), g.addr.clone()]);
                matrix(rep, &mut u, &ep, &stranger, "funded+allowances-to-contracts");
            }
        }
    }
    rep.exhaustive = Some(true);
    let mut req: Vec<String> = GROUPS.iter().map(|g| format!("group:{}", g)).collect();
    for a in ["named-address", "counterparty", "contract-owner", "stranger", "nobody", "everyone-but-named", "named-other-arguments", "contract-names-itself", "contract-names-other"] {
        req.push(format!("authoriser:{}", a));
    }
    for e in [
        "token.approve", "token.transfer", "token.transfer_from", "token.burn", "token.burn_from", "token.mint_from", "gas-service.pay_gas", "gas-service.add_gas",
        "gateway.call_contract", "gateway.validate_message", "its.deploy_interchain_token", "its.deploy_remote_interchain_token", "its.deploy_remote_canonical_token",
        "its.interchain_transfer", "operators.execute", "example.send",
    ] {
        req.push(format!("ep:{}", e));
    }
    rep.notes.insert("required".into(), json!(req));
    rep.notes.insert("rule".into(), json!("finite matrix enumerated completely: 16 entry points that debit, burn, pay gas from, send as, consume for, deploy under the name of or execute as an address named in the arguments x authorisers {the named address, the counterparty (recipient / owner of the funds in a delegated call / application), the contract owner, a stranger, nobody, everyone the code asked except the named address, the named address for other arguments (one argument changed at a time: amount, recipient, spender, expiry, source address, message id, destination, function, target)}, in states where the call is otherwise valid (allowances granted, balances funded, messages approved, tokens registered), and for delegated transfers/burns also in states without (or beyond) an allowance with the spender, the owner of the funds or a third party as recipient, where nobody's authorisation may succeed; plus the contract-as-caller variant through a forwarding proxy (the named address is the calling contract => accepted without entries; another address => refused). Only the named address's exact authorisation may succeed; refused calls are diffed against the pre-state. distinct = (entry point, state, authoriser, outcome)"));
}
