//! C12 — token balances, allowances and supply follow the standard token rules.
//! ~150-line reference token (balances with checked arithmetic, allowances with expiry, minter
//! set, owner) stepped in lock-step with the tree's native InterchainToken; ledger advancement
//! crosses allowance expiry and temporary-entry eviction; every balance and allowance is read
//! back after every operation; standard token events are compared with independently built values.

use crate::oracle::*;
use crate::report::Report;
use crate::rng::Rng;
use crate::tok::metadata;
use crate::univ::*;
use crate::Ctx;
use interchain_token::{InterchainToken, InterchainTokenClient};
use serde_json::json;
use soroban_sdk::xdr::ScVal;
use soroban_sdk::{Address, BytesN, Env};
use std::collections::{BTreeMap, BTreeSet};

const OPS: &[&str] = &[
    "mint", "mint_from", "transfer", "approve", "transfer_from", "burn", "burn_from", "add_minter",
    "remove_minter", "transfer_ownership", "advance",
];
const AMOUNTS: &[&str] = &["zero", "one", "balance", "balance+1", "allowance", "allowance+1", "i128-max", "negative", "small", "2^64+1", "2^96"];
const EXPIRIES: &[&str] = &["seq-1", "seq", "seq+1", "seq+15", "seq+16", "seq+17", "seq+1000", "far"];

#[derive(Clone)]
struct Model {
    bal: BTreeMap<usize, i128>,
    allow: BTreeMap<(usize, usize), (i128, u32)>,
    minters: BTreeSet<usize>,
    owner: usize,
    supply: Option<i128>,
}

impl Model {
    fn balance(&self, a: usize) -> i128 {
        *self.bal.get(&a).unwrap_or(&0)
    }
    fn allowance(&self, f: usize, s: usize, seq: u32) -> i128 {
        match self.allow.get(&(f, s)) {
            Some((amt, exp)) if *exp >= seq => *amt,
            _ => 0,
        }
    }
}

#[derive(Clone, Debug, PartialEq)]
enum Want {
    Ok,
    Fail(&'static str),
    Either(&'static str),
}

fn ev(token: &soroban_sdk::xdr::ScAddress, topics: Vec<ScVal>, data: ScVal) -> Ev {
    Ev {
        contract: token.clone(),
        topics,
        data,
    }
}

/// Model index of the account address that shares its 32 identifying bytes with cast member `k`
/// (a contract address): a different address, which can hold funds and be named as spender, but
/// for which nobody can sign in the harness.
const TWIN: usize = 1000;

const STANDARD_KINDS: &[&str] = &["transfer", "mint", "burn", "approve", "set_admin", "minter_added", "minter_removed", "clawback", "set_authorized"];

pub fn run(ctx: &Ctx, rep: &mut Report) {
    let total = ctx.universes(960, 60000);
    for uni in ctx.my_universes(total) {
        let mut rng = ctx.rng_for(uni);
        rep.begin_universe(uni);
        if uni == 0 {
            // once per run: the history recorded under the pinned version, continued by the current code
            crate::legacy::run(rep, "C12");
        }
        let mut u = U::with_ledger(1000 + rng.below(1000) as u32, 1_000_000);
        u.blanket_ok = true;
        // cast: 0..4 plain accounts, 5 = initial owner, 6 = designated minter, 7.. later owners
        let mut cast: Vec<Address> = (0..7).map(|_| u.principal()).collect();
        let twins: Vec<Address> = (0..5).map(|k| twin_of(&u.env, &cast[k])).collect();
        let with_minter = rng.chance(1, 2);
        let id = rng.bytes32();
        let tok = {
            let md = metadata(&u.env, b"Token", b"TKN", 7);
            let minter = if with_minter { Some(cast[6].clone()) } else { None };
            u.env.register(InterchainToken, (cast[5].clone(), minter, BytesN::from_array(&u.env, &id), md))
        };
        u.skip_events();
        let tsc = sc_addr(&tok);
        let mut m = Model {
            bal: BTreeMap::new(),
            allow: BTreeMap::new(),
            minters: BTreeSet::new(),
            owner: 5,
            supply: Some(0),
        };
        m.minters.insert(5);
        if with_minter {
            m.minters.insert(6);
        }
        let mut alive = true;
        let unknown_fns = unknown_entry_points("interchain-token", &["__constructor", "add_minter", "admin", "allowance", "approve", "authorized", "balance", "burn", "burn_from", "clawback", "decimals", "is_minter", "mint", "mint_from", "name", "owner", "read_allowance", "read_balance", "receive_balance", "remove_minter", "run_migration", "set_admin", "set_authorized", "spend_allowance", "spend_balance", "symbol", "token_id", "transfer", "transfer_from", "transfer_ownership", "validate_amount", "write_allowance", "write_balance", "write_metadata", "upgrade", "migrate", "version"]);
        for _ in 0..60 {
            if !alive {
                break;
            }
            let seq = u.seq();
            let op = OPS[rng.weighted(&[4, 8, 10, 10, 12, 5, 8, 2, 2, 2, 6])];
            let a = rng.usize(5);
            let b = rng.usize(5);
            let c = rng.usize(5);
            // amount classes relative to the relevant balance / allowance
            let (bal_ref, allow_ref) = match op {
                "transfer" | "burn" => (m.balance(a), 0),
                "transfer_from" | "burn_from" => (m.balance(b), m.allowance(b, a, seq)),
                _ => (m.balance(a), m.allowance(a, b, seq)),
            };
            let aclass = *rng.pick(AMOUNTS);
            let amount: i128 = match aclass {
                "zero" => 0,
                "one" => 1,
                "balance" => bal_ref,
                "balance+1" => bal_ref.saturating_add(1),
                "allowance" => allow_ref,
                "allowance+1" => allow_ref.saturating_add(1),
                "i128-max" => i128::MAX,
                "negative" => -1 - rng.below(3) as i128,
                "2^64+1" => (1i128 << 64) + 1,
                "2^96" => 1i128 << 96,
                _ => 1 + rng.below(1000) as i128,
            };
            let tk = tok.clone();
            let desc;
            let mut want;
            let actor: usize;
            let mut want_events: Vec<Ev> = Vec::new();
            let mut apply: Box<dyn FnOnce(&mut Model)> = Box::new(|_| {});
            let f: Box<dyn Fn(&Env) -> Result<(), String>>;
            match op {
                "mint" | "mint_from" => {
                    actor = if op == "mint" { m.owner } else { *rng.pick(&[0usize, 1, 5, 6, m.owner]) };
                    let to = a;
                    let is_minter = m.minters.contains(&actor);
                    let overflow = m.balance(to).checked_add(amount).is_none();
                    want = if amount < 0 {
                        Want::Fail("negative-amount")
                    } else if !is_minter {
                        // "only current minters can mint": also through the administrator's entry point
                        Want::Fail("not-a-minter")
                    } else if overflow {
                        Want::Fail("balance-overflow")
                    } else {
                        Want::Ok
                    };
                    desc = format!("{} by #{} to #{} amount {}({})", op, actor, to, amount, aclass);
                    want_events.push(ev(&tsc, vec![sv_sym("mint"), sv_addr(&sc_addr(&cast[actor])), sv_addr(&sc_addr(&cast[to]))], sv_i128(amount)));
                    let (ac, tc) = (cast[actor].clone(), cast[to].clone());
                    let is_admin_mint = op == "mint";
                    f = Box::new(move |env: &Env| {
                        let cl = InterchainTokenClient::new(env, &tk);
                        if is_admin_mint { flat(cl.try_mint(&tc, &amount)) } else { flat(cl.try_mint_from(&ac, &tc, &amount)) }
                    });
                    apply = Box::new(move |m: &mut Model| {
                        *m.bal.entry(to).or_insert(0) += amount;
                        m.supply = m.supply.and_then(|s| s.checked_add(amount));
                    });
                }
                "transfer" => {
                    actor = a;
                    // now and then the recipient is the account twin of a cast member
                    let (to, to_addr) = if rng.chance(1, 8) { (TWIN + b, twins[b].clone()) } else { (b, cast[b].clone()) };
                    want = if amount < 0 {
                        Want::Fail("negative-amount")
                    } else if m.balance(a) < amount {
                        Want::Fail("insufficient-balance")
                    } else if a != to && m.balance(to).checked_add(amount).is_none() {
                        Want::Fail("balance-overflow")
                    } else {
                        Want::Ok
                    };
                    desc = format!("transfer #{} -> #{} amount {}({})", a, to, amount, aclass);
                    want_events.push(ev(&tsc, vec![sv_sym("transfer"), sv_addr(&sc_addr(&cast[a])), sv_addr(&sc_addr(&to_addr))], sv_i128(amount)));
                    let (fc, tc) = (cast[a].clone(), to_addr.clone());
                    f = Box::new(move |env: &Env| flat(InterchainTokenClient::new(env, &tk).try_transfer(&fc, &tc, &amount)));
                    apply = Box::new(move |m: &mut Model| {
                        *m.bal.entry(a).or_insert(0) -= amount;
                        *m.bal.entry(to).or_insert(0) += amount;
                    });
                }
                "approve" => {
                    actor = a;
                    // now and then the spender named is the account twin of a cast member
                    let (spender, spender_addr) = if rng.chance(1, 6) { (TWIN + b, twins[b].clone()) } else { (b, cast[b].clone()) };
                    let eclass = *rng.pick(EXPIRIES);
                    let expiry: u32 = match eclass {
                        "seq-1" => seq - 1,
                        "seq" => seq,
                        "seq+1" => seq + 1,
                        "seq+15" => seq + 15,
                        "seq+16" => seq + 16,
                        "seq+17" => seq + 17,
                        "seq+1000" => seq + 1000,
                        _ => if rng.chance(1, 2) { seq + 7_000_000 } else { u32::MAX },
                    };
                    rep.count(&format!("expiry:{}", eclass));
                    want = if amount < 0 {
                        Want::Fail("negative-amount")
                    } else if amount > 0 && expiry < seq {
                        Want::Fail("already-expired")
                    } else if amount > 0 && expiry - seq >= 6_000_000 {
                        Want::Either("lifetime-beyond-host-ttl-cap")
                    } else {
                        Want::Ok
                    };
                    desc = format!("approve #{} -> spender #{} amount {}({}) expiry {}({})", a, spender, amount, aclass, expiry, eclass);
                    want_events.push(ev(&tsc, vec![sv_sym("approve"), sv_addr(&sc_addr(&cast[a])), sv_addr(&sc_addr(&spender_addr))], sv_vec(vec![sv_i128(amount), sv_u32(expiry)])));
                    let (fc, sc) = (cast[a].clone(), spender_addr.clone());
                    f = Box::new(move |env: &Env| flat(InterchainTokenClient::new(env, &tk).try_approve(&fc, &sc, &amount, &expiry)));
                    apply = Box::new(move |m: &mut Model| {
                        m.allow.insert((a, spender), (amount, expiry));
                    });
                }
                "transfer_from" | "burn_from" => {
                    actor = a; // spender
                    let from = b;
                    let to = c;
                    let al = m.allowance(from, a, seq);
                    let is_transfer = op == "transfer_from";
                    want = if amount < 0 {
                        Want::Fail("negative-amount")
                    } else if al < amount {
                        let why = match m.allow.get(&(from, a)) {
                            None => "never-granted-allowance",
                            Some((_, exp)) if *exp < seq => "expired-allowance",
                            _ => "insufficient-allowance",
                        };
                        Want::Fail(why)
                    } else if m.balance(from) < amount {
                        Want::Fail("insufficient-balance")
                    } else if is_transfer && from != to && m.balance(to).checked_add(amount).is_none() {
                        Want::Fail("balance-overflow")
                    } else if amount == 0 && al == 0 {
                        Want::Either("zero-amount-without-allowance")
                    } else {
                        Want::Ok
                    };
                    desc = format!("{} spender #{} from #{} to #{} amount {}({}) allowance {}", op, a, from, to, amount, aclass, al);
                    if is_transfer {
                        want_events.push(ev(&tsc, vec![sv_sym("transfer"), sv_addr(&sc_addr(&cast[from])), sv_addr(&sc_addr(&cast[to]))], sv_i128(amount)));
                    } else {
                        want_events.push(ev(&tsc, vec![sv_sym("burn"), sv_addr(&sc_addr(&cast[from]))], sv_i128(amount)));
                    }
                    let (sc, fc, tc) = (cast[a].clone(), cast[from].clone(), cast[to].clone());
                    f = Box::new(move |env: &Env| {
                        let cl = InterchainTokenClient::new(env, &tk);
                        if is_transfer { flat(cl.try_transfer_from(&sc, &fc, &tc, &amount)) } else { flat(cl.try_burn_from(&sc, &fc, &amount)) }
                    });
                    let spender = a;
                    apply = Box::new(move |m: &mut Model| {
                        if amount > 0 {
                            if let Some(e) = m.allow.get_mut(&(from, spender)) {
                                e.0 -= amount;
                            }
                        }
                        *m.bal.entry(from).or_insert(0) -= amount;
                        if is_transfer {
                            *m.bal.entry(to).or_insert(0) += amount;
                        } else {
                            m.supply = m.supply.and_then(|s| s.checked_sub(amount));
                        }
                    });
                }
                "burn" => {
                    actor = a;
                    want = if amount < 0 {
                        Want::Fail("negative-amount")
                    } else if m.balance(a) < amount {
                        Want::Fail("insufficient-balance")
                    } else {
                        Want::Ok
                    };
                    desc = format!("burn #{} amount {}({})", a, amount, aclass);
                    want_events.push(ev(&tsc, vec![sv_sym("burn"), sv_addr(&sc_addr(&cast[a]))], sv_i128(amount)));
                    let fc = cast[a].clone();
                    f = Box::new(move |env: &Env| flat(InterchainTokenClient::new(env, &tk).try_burn(&fc, &amount)));
                    apply = Box::new(move |m: &mut Model| {
                        *m.bal.entry(a).or_insert(0) -= amount;
                        m.supply = m.supply.and_then(|s| s.checked_sub(amount));
                    });
                }
                "add_minter" | "remove_minter" => {
                    actor = m.owner;
                    let x = *rng.pick(&[0usize, 1, 5, 6, m.owner]);
                    let adding = op == "add_minter";
                    want = Want::Ok;
                    desc = format!("{} #{}", op, x);
                    want_events.push(ev(&tsc, vec![sv_sym(if adding { "minter_added" } else { "minter_removed" }), sv_addr(&sc_addr(&cast[x]))], ScVal::Void));
                    let xc = cast[x].clone();
                    f = Box::new(move |env: &Env| {
                        let cl = InterchainTokenClient::new(env, &tk);
                        if adding { flat(cl.try_add_minter(&xc)) } else { flat(cl.try_remove_minter(&xc)) }
                    });
                    apply = Box::new(move |m: &mut Model| {
                        if adding { m.minters.insert(x); } else { m.minters.remove(&x); }
                    });
                }
                "transfer_ownership" => {
                    actor = m.owner;
                    let newo = if rng.chance(1, 4) {
                        m.owner
                    } else if rng.chance(1, 2) {
                        rng.usize(7)
                    } else {
                        cast.push(u.principal());
                        cast.len() - 1
                    };
                    let via_set_admin = rng.chance(1, 2);
                    want = Want::Ok;
                    desc = format!("{} #{} -> #{}", if via_set_admin { "set_admin" } else { "transfer_ownership" }, m.owner, newo);
                    want_events.push(ev(&tsc, vec![sv_sym("set_admin"), sv_addr(&sc_addr(&cast[m.owner]))], sv_addr(&sc_addr(&cast[newo]))));
                    let nc = cast[newo].clone();
                    f = Box::new(move |env: &Env| {
                        let cl = InterchainTokenClient::new(env, &tk);
                        if via_set_admin { flat(cl.try_set_admin(&nc)) } else { flat(cl.try_transfer_ownership(&nc)) }
                    });
                    apply = Box::new(move |m: &mut Model| {
                        m.owner = newo;
                    });
                }
                _ => {
                    let d = *rng.pick(&[0u32, 1, 2, 16, 17, 100, 100, 17, 5_000, 1_300_000, crate::univ::EON]);
                    // sometimes the token is also upgraded to the same code and migrated
                    if rng.chance(1, 4) && u.upgrade_and_migrate(&tok).is_ok() {
                        rep.step("the token is upgraded to the same code and migrated".into());
                        rep.count("upgrade-and-migrate");
                    }
                    if d > 100 {
                        u.advance(d);
                    } else {
                        u.set_seq(seq + d);
                    }
                    rep.step(format!("advance ledger by {} to {}", if d == crate::univ::EON { "an eon".to_string() } else { d.to_string() }, u.seq()));
                    rep.count("op:advance");
                    rep.count(&format!("advance:{}", d));
                    // expiry / eviction must be reflected by the getters right away
                    if !read_back(rep, &mut u, &tok, &cast, &twins, &m, "advance") {
                        alive = false;
                    }
                    continue;
                }
            }
            // moving nothing: the statement neither demands nor forbids it (approve(0) revokes and stays)
            if amount == 0 && want == Want::Ok && matches!(op, "mint" | "mint_from" | "transfer" | "transfer_from" | "burn" | "burn_from") {
                want = Want::Either("zero-amount");
            }
            // a few calls without the actor's authorisation (C07 owns the full matrix)
            let unauth = rng.chance(1, 25);
            if unauth {
                want = Want::Fail("no-authorisation");
            }
            rep.step(format!("{} want={:?}", desc, want));
            let auth = if unauth { Auth::Nobody } else { Auth::Only(vec![cast[actor].clone()]) };
            let o = u.call(auth, &*f);
            rep.count(&format!("op:{}", op));
            rep.count(&format!("amount:{}", aclass));
            rep.eval(op, &format!("{}|{}|{:?}|{}", op, aclass, want, o.ok()), true);
            if rep.samples.len() < 5 && rng.chance(1, 80) {
                rep.sample(json!({"op": desc, "expect": format!("{:?}", want), "accepted": o.ok()}));
            }
            if let Some(l) = &o.leak {
                rep.violation(&format!("rejected-op-left-trace:{}", op), l.clone());
                break;
            }
            match (&want, o.ok()) {
                (Want::Fail(r), true) => {
                    rep.violation(&format!("{}-accepted:{}", op, r), format!("{} succeeded; must be rejected: {}", desc, r));
                    break;
                }
                (Want::Ok, false) => {
                    rep.violation(&format!("{}-refused:{}", op, aclass), format!("{} failed ({:?}); the model says it is valid", desc, o.res));
                    break;
                }
                _ => {}
            }
            if o.ok() {
                let got: Vec<Ev> = o.events.iter().filter(|e| e.contract == tsc && STANDARD_KINDS.contains(&e.kind().as_str())).cloned().collect();
                for e in &got {
                    rep.event(&e.kind());
                }
                // Beyond the event the change itself calls for, an `approve` event restating what is
                // left of an allowance is not excluded by the statement; it must be true, though
                // (judged below, against the model after the operation).
                let extra_approves: Vec<Ev> = got.iter().filter(|e| e.kind() == "approve" && !want_events.contains(e)).cloned().collect();
                let got: Vec<Ev> = got.into_iter().filter(|e| !extra_approves.contains(e)).collect();
                if got != want_events {
                    let kind = want_events[0].kind();
                    let what = if got.len() != 1 {
                        format!("count={}", got.len())
                    } else if got[0].kind() != kind {
                        "kind".to_string()
                    } else {
                        "parties-or-amount".to_string()
                    };
                    rep.violation(
                        &format!("token-event:{}:{}", kind, what),
                        format!("{}: standard token event differs ({}): got {:?}, want {:?}", desc, what, got.first().map(|e| (&e.topics, &e.data)), (&want_events[0].topics, &want_events[0].data)),
                    );
                    break;
                }
                apply(&mut m);
                let mut untrue = None;
                for e in &extra_approves {
                    rep.count("note:additional-approve-event");
                    let idx = |v: &ScVal| -> Option<usize> {
                        if let ScVal::Address(a) = v {
                            cast.iter().position(|c| sc_addr(c) == *a)
                        } else {
                            None
                        }
                    };
                    let stated: Option<i128> = match &e.data {
                        ScVal::Vec(Some(items)) => items.first().and_then(|x| if let ScVal::I128(p) = x { Some(((p.hi as i128) << 64) | p.lo as i128) } else { None }),
                        ScVal::I128(p) => Some(((p.hi as i128) << 64) | p.lo as i128),
                        _ => None,
                    };
                    let actual = match (e.topics.get(1).and_then(idx), e.topics.get(2).and_then(idx)) {
                        (Some(f), Some(sp)) => m.allowance(f, sp, u.seq()),
                        _ => 0,
                    };
                    if let Some(st) = stated {
                        if st != actual {
                            untrue = Some(format!("{}: an additional approve event states an allowance of {} where it is {}", desc, st, actual));
                        }
                    }
                }
                if let Some(d) = untrue {
                    rep.violation("token-event:approve:additional-event-untrue", d);
                    break;
                }
            }
            // entry points of the token this workload does not know, tried on the authorisation of an
            // outsider (an account that holds nothing, was never granted an allowance and has no role)
            // with what is at hand: no correct entry point can move anything for it, so whatever these
            // calls do, the read-back judges. (An earlier version used a cast member as the signer; an
            // alias of `transfer` then moved that member's own funds legitimately - DESIGN 10.4.)
            if !unknown_fns.is_empty() {
                use soroban_sdk::IntoVal;
                let env = u.env.clone();
                let outsider = u.principal();
                let tuples: Vec<soroban_sdk::Vec<soroban_sdk::Val>> = vec![
                    (cast[a].clone(), 5i128).into_val(&env),
                    (cast[a].clone(), cast[b].clone(), 5i128).into_val(&env),
                    (outsider.clone(), cast[a].clone(), cast[b].clone(), 5i128).into_val(&env),
                    (outsider.clone(), cast[a].clone(), 5i128).into_val(&env),
                    (cast[a].clone(),).into_val(&env),
                ];
                let by = outsider.clone();
                {
                    let n = u.try_unknown(&tok, &unknown_fns, &tuples, &Auth::AllBy(by));
                    rep.count("unknown-entry-point-tried");
                    if n > 0 {
                        rep.count("note:unknown-entry-point-accepted-a-call");
                    }
                }
            }
            if !read_back(rep, &mut u, &tok, &cast, &twins, &m, op) {
                alive = false;
            }
        }
    }
    let mut req: Vec<String> = OPS.iter().map(|o| format!("op:{}", o)).collect();
    req.extend(AMOUNTS.iter().map(|o| format!("amount:{}", o)));
    req.extend(EXPIRIES.iter().map(|o| format!("expiry:{}", o)));
    rep.notes.insert("required".into(), json!(req));
    rep.notes.insert("rule".into(), json!("universes of 60 operations on the tree's native InterchainToken over 5 accounts + owner(s) + designated minter: mint, mint_from, transfer, approve, transfer_from, burn, burn_from, add/remove minter, ownership change (transfer_ownership / set_admin), ledger advancement by {0,1,2,16,17,100, 5 000, 1 300 000}; amounts in {0, 1, balance, balance+1, allowance, allowance+1, i128::MAX, negative, small}, expirations in {seq-1, seq, seq+1, seq+15, seq+16, seq+17, seq+1000, beyond the host TTL cap}; after every operation balance() of every holder, allowance() of all 25 account pairs, is_minter() and owner() are read back, sum of balances is compared with initial + mints - burns; one standard token event per successful change compared with independently built values. distinct = (op, amount class, expectation, outcome)"));
}

fn read_back(rep: &mut Report, u: &mut U, tok: &Address, cast: &[Address], twins: &[Address], m: &Model, op: &str) -> bool {
    let seq = u.seq();
    let tk = tok.clone();
    let cs: Vec<Address> = cast.to_vec();
    // the account twins: their balances and the allowances granted to them are theirs alone
    let twin_total: Option<i128>;
    {
        let (tk, cs, tw) = (tok.clone(), cast.to_vec(), twins.to_vec());
        let (tb, ta): (Vec<i128>, Vec<i128>) = u.query(move |env| {
            let cl = InterchainTokenClient::new(env, &tk);
            let tb = tw.iter().map(|a| cl.balance(a)).collect();
            let mut ta = Vec::new();
            for f in 0..5 {
                for s in 0..5 {
                    ta.push(cl.allowance(&cs[f], &tw[s]));
                }
            }
            (tb, ta)
        });
        twin_total = tb.iter().try_fold(0i128, |acc, b| acc.checked_add(*b));
        for (k, b) in tb.iter().enumerate() {
            if *b != m.balance(TWIN + k) {
                rep.violation(&format!("balance-mismatch-after:{}", op), format!("balance(account twin of #{}) = {}, model {}", k, b, m.balance(TWIN + k)));
                return false;
            }
        }
        for f in 0..5 {
            for s in 0..5 {
                let (got, want) = (ta[f * 5 + s], m.allowance(f, TWIN + s, seq));
                if got != want {
                    rep.violation(&format!("allowance-mismatch-after:{}", op), format!("allowance(#{} -> account twin of #{}) = {} at ledger {}, model {}", f, s, got, seq, want));
                    return false;
                }
            }
        }
    }
    let (bals, allows, minters, owner): (Vec<i128>, Vec<i128>, Vec<bool>, Address) = u.query(move |env| {
        let cl = InterchainTokenClient::new(env, &tk);
        let bals = cs.iter().map(|a| cl.balance(a)).collect();
        let mut allows = Vec::new();
        for f in 0..5 {
            for s in 0..5 {
                allows.push(cl.allowance(&cs[f], &cs[s]));
            }
        }
        let minters = cs.iter().map(|a| cl.is_minter(a)).collect();
        if cl.admin() != cl.owner() {
            panic!("admin() differs from owner()");
        }
        (bals, allows, minters, cl.owner())
    });
    let mut sum: Option<i128> = twin_total;
    for (i, b) in bals.iter().enumerate() {
        if *b != m.balance(i) {
            rep.violation(&format!("balance-mismatch-after:{}", op), format!("balance(#{}) = {}, model {}", i, b, m.balance(i)));
            return false;
        }
        if *b < 0 {
            rep.violation("negative-balance", format!("balance(#{}) = {}", i, b));
            return false;
        }
        sum = sum.and_then(|s| s.checked_add(*b));
    }
    if let (Some(s), Some(ms)) = (sum, m.supply) {
        if s != ms {
            rep.violation(&format!("supply-mismatch-after:{}", op), format!("sum of balances {} != minted - burned {}", s, ms));
            return false;
        }
    }
    for f in 0..5 {
        for s in 0..5 {
            let got = allows[f * 5 + s];
            let want = m.allowance(f, s, seq);
            if got != want {
                rep.violation(
                    &format!("allowance-mismatch-after:{}", op),
                    format!("allowance(#{} -> #{}) = {} at ledger {}, model {} (entry {:?})", f, s, got, seq, want, m.allow.get(&(f, s))),
                );
                return false;
            }
            if got < 0 {
                rep.violation("negative-allowance", format!("{}", got));
                return false;
            }
        }
    }
    for (i, mi) in minters.iter().enumerate() {
        if *mi != m.minters.contains(&i) {
            rep.violation(&format!("minter-set-mismatch-after:{}", op), format!("is_minter(#{}) = {}, model {}", i, mi, m.minters.contains(&i)));
            return false;
        }
    }
    if owner != cast[m.owner] {
        rep.violation(&format!("owner-mismatch-after:{}", op), "owner() differs from the model".into());
        return false;
    }
    true
}
