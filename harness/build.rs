fn main() {}
